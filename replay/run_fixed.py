#!/usr/bin/env python3
"""Thorough tier, second stage: the recorded failing inputs of every repaired defect of a property
(known_findings.json, status fixed, witness replay/findings/*_test.go) are replayed on the real code of
the repository with `go test -overlay` (nothing is written to the repository). A reproducer that fails
again is a violation with a real failing input. usage: run_fixed.py <property-id> [repo]"""
import json, os, re, subprocess, sys, tempfile
here = os.path.dirname(os.path.dirname(os.path.abspath(__file__)))
prop = sys.argv[1]
repo = sys.argv[2] if len(sys.argv) > 2 else os.environ.get("VERIF_REPO", "/repo")
env = dict(os.environ, GOFLAGS="-mod=mod", GOPROXY="off", GOSUMDB="off", GOTOOLCHAIN="local")
seen, bad, ran = set(), 0, 0
for k in json.load(open(os.path.join(here, "known_findings.json"))):
    if k.get("property") != prop or k.get("status") != "fixed" or not k.get("witness"):
        continue
    f = re.split(r"[ ;(]", k["witness"].strip())
    file = os.path.join(here, f[0])
    run = f[1] if len(f) > 1 and f[1].startswith("Test") else "TestReplay"
    if (file, run) in seen or not os.path.exists(file):
        continue
    seen.add((file, run))
    pkg = "."
    for line in open(file):
        if line.startswith("package "):
            p = line.split()[1]
            pkg = "." if p == "pebbles" else p
            break
    with tempfile.TemporaryDirectory() as tmp:
        ov = os.path.join(tmp, "ov.json")
        json.dump({"Replace": {os.path.join(repo, pkg, "zz_verif_replay_test.go"): file}}, open(ov, "w"))
        r = subprocess.run(["go", "test", "-overlay", ov, "-vet=off", "-count=1", "-timeout", "60s", "-run", run, "./" + pkg],
                           cwd=repo, env=env, capture_output=True, text=True)
    ran += 1
    if r.returncode != 0 and ("--- FAIL" in r.stdout or "panic:" in r.stdout + r.stderr):
        bad += 1
        print(f"VIOLATION property={prop} replay={file} obligation={k['obligation']} status=replay-fails (the recorded failing input of a repaired defect fails again on the real code)")
print(f"replayed {ran} recorded inputs of repaired defects of {prop}: {bad} fail")
# the evidence of this run says so too
ev = os.path.join(here, "evidence", prop + ".json")
try:
    e = json.load(open(ev))
    e.setdefault("coverage", {})["recorded_inputs_of_repaired_defects_replayed"] = ran
    e["coverage"]["recorded_inputs_failing_again"] = bad
    json.dump(e, open(ev, "w"), indent=1)
except Exception:
    pass
sys.exit(1 if bad else 0)
