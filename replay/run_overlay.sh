#!/bin/bash
# usage: run_overlay.sh <repo> <package dir relative to repo> <test file> <TestRegex>
# Injects an in-package test through `go test -overlay` (nothing is written to the repo).
set -u
export GOFLAGS=-mod=mod GOPROXY=off GOSUMDB=off GOTOOLCHAIN=local
repo="$1"; pkg="$2"; file="$(readlink -f "$3")"; run="$4"
tmp="$(mktemp -d)"; trap 'rm -rf "$tmp"' EXIT
printf '{"Replace":{"%s/%s/zz_replay_verif_test.go":"%s"}}\n' "$repo" "$pkg" "$file" > "$tmp/ov.json"
cd "$repo" && ulimit -v 4000000 && go test -overlay "$tmp/ov.json" -vet=off -count=1 -timeout 60s -run "$run" "./$pkg"
