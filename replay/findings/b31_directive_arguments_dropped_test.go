package introspection

// Reproducer for B31 (C15): the introspection query asks for `directives { name description locations args { ... } }`
// but IntrospectionQueryDirective decodes the arguments from the key "arg", so every directive is rebuilt without its
// arguments: `directive @auth(role: String) on FIELD_DEFINITION` becomes `directive @auth on FIELD_DEFINITION`.
// Derived from the obligation introspection.introspectRemoteSchema#... "directives with their arguments" (C15).

import (
	"encoding/json"
	"testing"

	"github.com/buildbuildio/pebbles/queryer"
	"github.com/buildbuildio/pebbles/requests"
)

type directiveArgsQueryer struct{}

const b31Answer = `{"__schema": {
  "queryType": {"name": "Query"},
  "types": [
    {"kind": "OBJECT", "name": "Query", "fields": [
      {"name": "ping", "args": [], "type": {"kind": "SCALAR", "name": "String"}}], "interfaces": []},
    {"kind": "SCALAR", "name": "String"}
  ],
  "directives": [
    {"name": "auth", "description": "", "locations": ["FIELD_DEFINITION"],
     "args": [{"name": "role", "description": "", "type": {"kind": "SCALAR", "name": "String"}, "defaultValue": null}]}
  ]}}`

func (directiveArgsQueryer) Query([]*requests.Request) ([]map[string]interface{}, error) {
	var data map[string]interface{}
	if err := json.Unmarshal([]byte(b31Answer), &data); err != nil {
		return nil, err
	}
	return []map[string]interface{}{data}, nil
}
func (directiveArgsQueryer) URL() string { return "svc" }
func (directiveArgsQueryer) Subscribe(*requests.Request, <-chan struct{}, chan *requests.Response) error {
	return nil
}

func TestReplayDirectiveArgumentsAreKept(t *testing.T) {
	schema, err := introspectRemoteSchema(func(string) queryer.Queryer { return directiveArgsQueryer{} }, "svc")
	if err != nil {
		t.Fatal(err)
	}
	d := schema.Directives["auth"]
	if d == nil {
		t.Fatalf("directive @auth is missing from the reconstruction")
	}
	if d.Arguments.ForName("role") == nil {
		t.Fatalf("directive @auth(role: String) was rebuilt without its argument: %d arguments", len(d.Arguments))
	}
}
