package queryer

// Reproducer for B33 (C09): a reply element with neither data nor errors ({} / {"data": null} / null) was
// accepted: for a root step the client got {"data":{}} and no errors, although "missing data" is a
// failure signal. Derived from queryer.(*MultiOpQueryer).queryBatch#ensures{data-present}.

import (
	"bytes"
	"io/ioutil"
	"net/http"
	"testing"

	"github.com/buildbuildio/pebbles/requests"
)

type b33RT func(*http.Request) *http.Response

func (f b33RT) RoundTrip(r *http.Request) (*http.Response, error) { return f(r), nil }

func TestReplayReplyWithoutDataIsAFailure(t *testing.T) {
	for _, body := range []string{`[{}]`, `[{"data": null}]`, `[null]`} {
		q := NewMultiOpQueryer("http://x", 10).WithHTTPClient(&http.Client{Transport: b33RT(func(*http.Request) *http.Response {
			return &http.Response{StatusCode: 200, Body: ioutil.NopCloser(bytes.NewBufferString(body)), Header: http.Header{}}
		})})
		res, err := q.Query([]*requests.Request{{Query: "{ a }"}})
		if err == nil {
			t.Fatalf("reply %s (no data, no errors) accepted: %v", body, res)
		}
	}
}
