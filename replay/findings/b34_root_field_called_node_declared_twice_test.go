package merger

// Reproducer for B34 (C05): several services may declare the Relay entry point node(id: ID!): Node, but a
// root field that is merely called `node` (another signature) is an ordinary root field. When the service
// with the real entry point comes first, mergeRootObjects skipped the overlap check because the accumulated
// field had the entry-point shape: the other service's node(key: String!): Thing silently replaced it; in the
// reverse order the same pair of schemas was rejected.
// Derived from merger.mergeRootObjects#inv-keep[2]{loop0:checked}.

import (
	"testing"

	"github.com/vektah/gqlparser/v2"
	"github.com/vektah/gqlparser/v2/ast"
)

func b34Schema(t *testing.T, sdl string) *ast.Schema {
	t.Helper()
	s, err := gqlparser.LoadSchema(&ast.Source{Name: "s", Input: sdl})
	if err != nil {
		t.Fatal(err)
	}
	return s
}

func TestReplayRootFieldCalledNodeDeclaredTwiceIsRejectedInBothOrders(t *testing.T) {
	relay := `interface Node { id: ID! } type A implements Node { id: ID! a: Int } type Query { node(id: ID!): Node a: A }`
	other := `type Thing { x: Int } type Query { node(key: String!): Thing t: Thing }`
	for _, order := range [][2]string{{relay, other}, {other, relay}} {
		var m ExtendMergerFunc
		_, err := m.Merge([]*MergeInput{{Schema: b34Schema(t, order[0]), URL: "A"}, {Schema: b34Schema(t, order[1]), URL: "B"}})
		if err == nil {
			t.Fatalf("Query.node declared by two services with different signatures was accepted (first service: %.40s...)", order[0])
		}
	}
}
