package planner

// Reproducer for B19 (C13, C01): ScrubFields.clean applies the scrub list of the FIRST map
// entry whenever the payload has no __typename key (`for typename, fields := range ... { ...;
// break }`). With two types registered for the same path the cleaned result depends on map
// iteration order. The payload below is what a service returns when the client aliased
// __typename (`t: __typename`), so the planner's helper __typename was not added.

import (
	"fmt"
	"testing"
)

func TestReplayScrubDependsOnMapOrder(t *testing.T) {
	seen := map[string]bool{}
	for i := 0; i < 200; i++ {
		sf := ScrubFields{}
		sf.Set([]string{"search"}, "A", "id")
		sf.Set([]string{"search"}, "B", "b2")
		payload := map[string]interface{}{"search": map[string]interface{}{"t": "B", "id": "2", "b": 3, "b2": 4}}
		sf.Clean(payload)
		seen[fmt.Sprint(payload)] = true
	}
	if len(seen) != 1 {
		t.Fatalf("the same payload was cleaned in %d different ways: %v", len(seen), seen)
	}
}
