package merger

// Reproducer for B32 (C04): SetFromSchema skips every field shaped like the Relay entry point
// (`node(id: ID!): Node`) on every object type, but only Query.node is the entry point (and only there
// is the field removed from the merged schema). `type Mutation { node(id: ID!): Node other: Int }` keeps
// Mutation.node in the gateway's schema without a route: planning it fails with "could not find location".
// Derived from merger.(TypeURLMap).SetFromSchema#inv-keep[2]{loop1:current}.

import (
	"testing"

	"github.com/vektah/gqlparser/v2"
	"github.com/vektah/gqlparser/v2/ast"
)

func TestReplayNodeShapedFieldOutsideQueryIsRouted(t *testing.T) {
	s := gqlparser.MustLoadSchema(&ast.Source{Name: "a", Input: `
		interface Node { id: ID! }
		type Thing implements Node { id: ID! name: String }
		type Query { node(id: ID!): Node thing: Thing }
		type Mutation { node(id: ID!): Node other: Int }
	`})
	tum := TypeURLMap{}
	tum.SetFromSchema(s.Types, "a")
	if _, ok := tum.Get("Mutation", "other"); !ok {
		t.Fatalf("Mutation.other has no route")
	}
	if _, ok := tum.Get("Mutation", "node"); !ok {
		t.Fatalf("Mutation.node is a field of the merged schema and has no route")
	}
}
