package planner

// Reproducer for B25 (C07): format.(*Formatter).walkChildrenArgumentList reads ch.Value.ExpectedType of a
// variable inside a list literal. gqlparser does not set ExpectedType for the children of a list literal given
// to a custom scalar argument, so this validated operation makes the formatter - called from setQuery inside the
// per-operation goroutine of the handler - dereference nil and take the process down.

import (
	"testing"

	"github.com/buildbuildio/pebbles/merger"
	"github.com/vektah/gqlparser/v2"
	"github.com/vektah/gqlparser/v2/ast"
)

func TestReplayListLiteralForCustomScalarDoesNotPanic(t *testing.T) {
	sdl := `scalar JSON type Query { f(arg: JSON): String }`
	s, err := gqlparser.LoadSchema(&ast.Source{Name: "s", Input: sdl})
	if err != nil {
		t.Fatal(err)
	}
	tum := merger.TypeURLMap{}
	tum.SetFromSchema(s.Types, "svc")
	op, gerr := gqlparser.LoadQuery(s, `query($v: String) { f(arg: [$v]) }`)
	if gerr != nil {
		t.Fatal(gerr)
	}
	defer func() {
		if r := recover(); r != nil {
			t.Fatalf("planning a validated operation panicked: %v", r)
		}
	}()
	var sp SequentialPlanner
	_, _ = sp.Plan(&PlanningContext{Operation: op.Operations[0], Schema: s, TypeURLMap: tum})
}
