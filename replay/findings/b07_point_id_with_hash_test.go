package executor

// Reproducer for B7 (C01): an entity id that contains '#' is lost by the insertion-point codec.

import "testing"

func TestReplayPointIDWithHash(t *testing.T) {
	e := &CachedPointDataExtractor{cache: map[string]*PointData{}}
	for _, c := range []struct{ point, field, id string; index int }{
		{"foo:2#a#b", "foo", "a#b", 2},
		{"foo#a#b", "foo", "a#b", -1},
		{"foo:2#Thing:1337", "foo", "Thing:1337", 2},
	} {
		pd, err := e.Extract(c.point)
		if err != nil {
			t.Fatal(err)
		}
		if pd.Field != c.field || pd.ID != c.id || pd.Index != c.index {
			t.Fatalf("Extract(%q) = %+v, want field %q index %d id %q", c.point, *pd, c.field, c.index, c.id)
		}
	}
}
