package merger

// Reproducer for B22 (C03, C05): a plain (non-Node) type declared by two services, only one of
// which declares `id: ID!`. mergeCustomObjectFields skipped every `id: ID!` of the accumulated
// side, so with the declaring service listed first the merged type had no id field, and
// {x} + {id, x} (neither identical nor disjoint) was accepted with an order-dependent result.

import (
	"testing"

	"github.com/vektah/gqlparser/v2"
	"github.com/vektah/gqlparser/v2/ast"
)

func TestReplayIDFieldOfOneServiceIsKept(t *testing.T) {
	load := func(sdl string) *ast.Schema {
		s, err := gqlparser.LoadSchema(&ast.Source{Name: "s", Input: sdl})
		if err != nil {
			t.Fatal(err)
		}
		return s
	}
	withID := `type T { id: ID! y: Int } type Query { b: T }`
	withoutID := `type T { x: Int } type Query { a: T }`
	for _, order := range [][]string{{withID, withoutID}, {withoutID, withID}} {
		var m ExtendMergerFunc
		res, err := m.Merge([]*MergeInput{{Schema: load(order[0]), URL: "1"}, {Schema: load(order[1]), URL: "2"}})
		if err != nil {
			t.Fatalf("disjoint declarations of T must merge: %v", err)
		}
		if res.Schema.Types["T"].Fields.ForName("id") == nil {
			t.Errorf("T.id declared by one service is missing from the merged schema (first service declares id: %v)", order[0] == withID)
		}
	}
}

func TestReplayPartialCopyWithIDRejectedInBothOrders(t *testing.T) {
	load := func(sdl string) *ast.Schema {
		s, err := gqlparser.LoadSchema(&ast.Source{Name: "s", Input: sdl})
		if err != nil {
			t.Fatal(err)
		}
		return s
	}
	a := `type T { id: ID! x: Int } type Query { b: T }`
	b := `type T { x: Int } type Query { a: T }`
	for _, order := range [][]string{{a, b}, {b, a}} {
		var m ExtendMergerFunc
		res, err := m.Merge([]*MergeInput{{Schema: load(order[0]), URL: "1"}, {Schema: load(order[1]), URL: "2"}})
		if err == nil {
			t.Errorf("T{id,x} and T{x} are neither identical nor disjoint but were accepted; merged T has id: %v", res.Schema.Types["T"].Fields.ForName("id") != nil)
		}
	}
}
