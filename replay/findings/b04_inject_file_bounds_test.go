package requests

// Reproducers for B4, B5, B6 (C07): indices taken from the client's multipart map were used unchecked.

import "testing"

func replayInject(t *testing.T, batch bool, vars map[string]interface{}, path string) {
	t.Helper()
	defer func() {
		if r := recover(); r != nil {
			t.Fatalf("injectFile panicked on path %q: %v", path, r)
		}
	}()
	r := &ParseRequestResponse{IsBatchMode: batch, Requests: []*Request{{Query: "{ a }", Variables: vars}}}
	_ = r.injectFile(&Upload{FileName: "f"}, []string{path})
}

func TestReplayInjectFileBatchPathOnlyIndex(t *testing.T) { replayInject(t, true, map[string]interface{}{}, "0") }
func TestReplayInjectFileBatchIndexTooLarge(t *testing.T) {
	replayInject(t, true, map[string]interface{}{"f": nil}, "5.variables.f")
}
func TestReplayInjectFileBatchIndexNegative(t *testing.T) {
	replayInject(t, true, map[string]interface{}{"f": nil}, "-1.variables.f")
}
func TestReplayInjectFileListIndexNegative(t *testing.T) {
	replayInject(t, false, map[string]interface{}{"f": []interface{}{nil}}, "variables.f.-1")
}
