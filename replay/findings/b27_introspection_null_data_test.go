package introspection

// Reproducer for B27 (C15): a service that answers the introspection query with {"data": null} (no errors) made
// introspectRemoteSchema dereference a nil result: the gateway panicked at start-up instead of reporting an error.

import (
	"testing"

	"github.com/buildbuildio/pebbles/queryer"
	"github.com/buildbuildio/pebbles/requests"
)

type nullDataQueryer struct{}

func (nullDataQueryer) Query([]*requests.Request) ([]map[string]interface{}, error) {
	// what MultiOpQueryer returns for the reply [{"data": null}]
	return []map[string]interface{}{nil}, nil
}
func (nullDataQueryer) URL() string { return "svc" }
func (nullDataQueryer) Subscribe(*requests.Request, <-chan struct{}, chan *requests.Response) error {
	return nil
}

func TestReplayIntrospectionAnsweredWithNullData(t *testing.T) {
	defer func() {
		if r := recover(); r != nil {
			t.Fatalf("a service answering the introspection query with data:null made start-up panic: %v", r)
		}
	}()
	_, err := introspectRemoteSchema(func(string) queryer.Queryer { return nullDataQueryer{} }, "svc")
	if err == nil {
		t.Fatalf("expected a start-up error")
	}
}
