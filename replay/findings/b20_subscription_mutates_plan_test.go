package pebbles

// Reproducer for B20 (C14): newSubscriptionEntry detaches the follow-up steps from the
// plan it got from the planner (rs.Then = nil). With a caching planner the plan object is
// shared, so the next identical subscription finds no follow-up steps and its events are
// no longer stitched. The planner below hands out the same plan object twice, exactly as
// CachedPlanner does on a cache hit.

import (
	"net/http"
	"testing"

	"github.com/buildbuildio/pebbles/planner"
	"github.com/buildbuildio/pebbles/queryer"
	"github.com/buildbuildio/pebbles/requests"
	"github.com/vektah/gqlparser/v2/ast"
)

type replaySubQueryer struct{}

func (replaySubQueryer) Query([]*requests.Request) ([]map[string]interface{}, error) { return nil, nil }
func (replaySubQueryer) URL() string                                                  { return "" }
func (replaySubQueryer) Subscribe(*requests.Request, <-chan struct{}, chan *requests.Response) error {
	return nil
}

type replaySamePlanPlanner struct{ plan *planner.QueryPlan }

func (p *replaySamePlanPlanner) Plan(*planner.PlanningContext) (*planner.QueryPlan, error) {
	return p.plan, nil
}

func TestReplaySubscriptionKeepsSharedPlanIntact(t *testing.T) {
	plan := &planner.QueryPlan{RootSteps: []*planner.QueryPlanStep{{
		URL: "0", ParentType: "Subscription",
		SelectionSet: ast.SelectionSet{&ast.Field{Name: "test", Definition: &ast.FieldDefinition{Name: "test", Type: ast.NamedType("Entry", nil)}}},
		Then: []*planner.QueryPlanStep{{URL: "1", ParentType: "Entry", InsertionPoint: []string{"test"}}},
	}}}
	g := &Gateway{
		planner:        &replaySamePlanPlanner{plan: plan},
		queryerFactory: func(*planner.PlanningContext, string) queryer.Queryer { return replaySubQueryer{} },
	}
	req, _ := http.NewRequest("GET", "/", nil)
	ctx := &planner.PlanningContext{Request: &requests.Request{Original: req, Query: "subscription { test { id field } }"}}
	for i := 0; i < 2; i++ {
		se, err := g.newSubscriptionEntry("id", ctx)
		if err != nil {
			t.Fatal(err)
		}
		if se.executorFn == nil {
			t.Fatalf("subscription %d on the shared plan has no follow-up steps (plan was mutated by the previous one)", i+1)
		}
	}
	if len(plan.RootSteps[0].Then) != 1 {
		t.Fatalf("the planner's plan was modified: %d follow-up steps left", len(plan.RootSteps[0].Then))
	}
}
