package planner

import (
	"testing"
	"time"

	"github.com/stretchr/testify/require"
)

// B29 (C14): two operations that differ only in the type condition of a named fragment
// (`fragment F on Dog { name }` / `fragment F on Cat { name }`) are rendered identically by the
// formatter the cache key is computed with (formatFragmentSpread prints `...F { name }` and leaves
// the type condition out), so the cached planner answers the second with the plan of the first.
// Derived from the obligation format.(*Formatter).formatFragmentSpread#ensures{renders-type-condition}.
func TestReplayFragmentTypeConditionNotInCacheKey(t *testing.T) {
	first := `query Q { getAnimals { ...F } } fragment F on Dog { name }`
	second := `query Q { getAnimals { ...F } } fragment F on Cat { name }`

	var sp SequentialPlanner
	wantFirst, _ := mustRunPlanner(t, sp, unionSchema, first, unionTum)
	wantSecond, planSecond := mustRunPlanner(t, sp, unionSchema, second, unionTum)
	// the plain planner plans the two operations differently
	require.NotEqual(t, wantFirst, wantSecond)

	cp := NewCachedPlanner(time.Hour)
	gotFirst, _ := mustRunPlanner(t, cp, unionSchema, first, unionTum)
	gotSecond, cachedSecond := mustRunPlanner(t, cp, unionSchema, second, unionTum)

	require.JSONEq(t, wantFirst, gotFirst)
	require.JSONEq(t, wantSecond, gotSecond, "the cached planner answered the second operation with the plan of the first")
	require.Equal(t, planSecond.RootSteps[0].QueryString, cachedSecond.RootSteps[0].QueryString)
}
