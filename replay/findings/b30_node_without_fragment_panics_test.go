package pebbles

import (
	"bytes"
	"encoding/json"
	"net/http"
	"net/http/httptest"
	"testing"

	"github.com/buildbuildio/pebbles/planner"
	"github.com/buildbuildio/pebbles/queryer"
	"github.com/buildbuildio/pebbles/requests"
	"github.com/vektah/gqlparser/v2"
	"github.com/vektah/gqlparser/v2/ast"
)

type b30Queryer struct{}

func (q *b30Queryer) URL() string { return "svc" }
func (q *b30Queryer) Subscribe(*requests.Request, <-chan struct{}, chan *requests.Response) error {
	return nil
}
func (q *b30Queryer) Query(in []*requests.Request) ([]map[string]interface{}, error) {
	res := make([]map[string]interface{}, len(in))
	for i := range in {
		res[i] = map[string]interface{}{"node": map[string]interface{}{"id": "1"}}
	}
	return res, nil
}

// B30 (C07): `{ node(id: "1") { id } }` is a valid operation (id is a field of the Node interface), but the planner
// only looks at the inline fragments below `node`, so the plan has no step at all and the executor indexes an
// empty list of depth executors: the handler panics. Derived from executor.NewDepthExecutorManager /
// (*DepthExecutorManager).Execute#bounds{dem.depthExecutors[0]}.
func TestReplayNodeWithoutFragmentDoesNotPanic(t *testing.T) {
	schema := `
		interface Node { id: ID! }
		type Author implements Node { id: ID! name: String! }
		type Query { node(id: ID!): Node author: Author }
	`
	s := gqlparser.MustLoadSchema(&ast.Source{Name: "svc", Input: schema})
	gw, err := NewGateway(
		[]string{"svc"},
		WithRemoteSchemaIntrospector(&MockRemoteSchemaIntrospector{Res: []*ast.Schema{s}}),
		WithQueryerFactory(func(*planner.PlanningContext, string) queryer.Queryer { return &b30Queryer{} }),
	)
	if err != nil {
		t.Fatal(err)
	}
	body, _ := json.Marshal(map[string]interface{}{"query": `{ node(id: "1") { id } }`})
	r, _ := http.NewRequest("POST", "localhost", bytes.NewReader(body))
	rr := httptest.NewRecorder()
	defer func() {
		if p := recover(); p != nil {
			t.Fatalf("a valid operation made the handler panic: %v", p)
		}
	}()
	http.HandlerFunc(gw.Handler)(rr, r)
	var out map[string]interface{}
	if err := json.Unmarshal(rr.Body.Bytes(), &out); err != nil {
		t.Fatalf("response is not a JSON object: %s", rr.Body.String())
	}
	t.Logf("response: %s", rr.Body.String())
}
