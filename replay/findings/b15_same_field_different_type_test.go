package merger

// Reproducer for B15 (C05, C03): a shared field declared with different types (or arguments)
// by two services is accepted and one side silently wins - which one depends on the order.

import (
	"testing"

	"github.com/vektah/gqlparser/v2"
	"github.com/vektah/gqlparser/v2/ast"
)

func TestReplaySameFieldDifferentTypeRejected(t *testing.T) {
	load := func(sdl string) *ast.Schema {
		s, err := gqlparser.LoadSchema(&ast.Source{Name: "s", Input: sdl})
		if err != nil {
			t.Fatal(err)
		}
		return s
	}
	a := load(`type T { x: Int } type Query { a: T }`)
	b := load(`type T { x: String } type Query { b: T }`)
	var m ExtendMergerFunc
	res, err := m.Merge([]*MergeInput{{Schema: a, URL: "A"}, {Schema: b, URL: "B"}})
	if err == nil {
		t.Fatalf("T.x declared as Int and as String was accepted; merged type of T.x: %s", res.Schema.Types["T"].Fields.ForName("x").Type.String())
	}
}
