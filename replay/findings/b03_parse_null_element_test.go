package requests

// Reproducer for B3 (C07): body `[null]` decodes to a nil *Request; parseRequest dereferenced it.

import "testing"

func TestReplayParseNullElement(t *testing.T) {
	defer func() {
		if r := recover(); r != nil {
			t.Fatalf("parseRequest panicked on [null]: %v", r)
		}
	}()
	resp, err := parseRequest([]byte(`[null]`))
	if err == nil {
		for _, r := range resp.Requests {
			if r == nil {
				t.Fatalf("nil request accepted")
			}
		}
	}
}
