package planner

// Reproducer for B28 (C06, C01): the sanitiser treated a field as a duplicate when its response key equalled the NAME of an
// aliased field already kept, so the second selection of `mutation { first: saveAuthor(...) saveAuthor(...) }` never reached its service.
// (pointed out by a sub-agent as a side remark)

import (
	"strings"
	"testing"
)

func TestReplaySameRootFieldTwiceUnderDifferentKeys(t *testing.T) {
	// Valid GraphQL: the same root field selected twice, once under an alias.
	query := `mutation { first: saveAuthor(input: {name: "a"}) { id } saveAuthor(input: {name: "b"}) { id } }`
	var sp SequentialPlanner
	js, plan := mustRunPlanner(t, sp, simpleSchema, query, simpleTum)
	if plan == nil || len(plan.RootSteps) == 0 {
		t.Fatalf("no plan: %s", js)
	}
	all := ""
	for _, s := range plan.RootSteps {
		all += s.QueryString + "\n"
	}
	if strings.Count(all, "saveAuthor") != 2 {
		t.Fatalf("the operation selects saveAuthor twice (keys `first` and `saveAuthor`) but the plan sends:\n%s", all)
	}
}
