package merger

// Reproducer for B36 (C05/C03): a shared input type must be identical in both services (or disjoint), but the
// comparison of same-named fields ignored the default value of the field itself (only argument defaults were
// compared): `input Filter { first: Int = 10 }` and `input Filter { first: Int = 50 }` merged, with the default
// of the service listed first silently winning.
// Derived from merger.isSameFieldSignature#ensures{spec}.

import (
	"testing"

	"github.com/vektah/gqlparser/v2"
	"github.com/vektah/gqlparser/v2/ast"
)

func b36Schema(t *testing.T, sdl string) *ast.Schema {
	t.Helper()
	s, err := gqlparser.LoadSchema(&ast.Source{Name: "s", Input: sdl})
	if err != nil {
		t.Fatal(err)
	}
	return s
}

func TestReplaySharedInputWithDifferentDefaultIsRejected(t *testing.T) {
	a := `input Filter { first: Int = 10 } type Query { a(f: Filter): Int }`
	b := `input Filter { first: Int = 50 } type Query { b(f: Filter): Int }`
	for _, order := range [][2]string{{a, b}, {b, a}} {
		var m ExtendMergerFunc
		_, err := m.Merge([]*MergeInput{{Schema: b36Schema(t, order[0]), URL: "A"}, {Schema: b36Schema(t, order[1]), URL: "B"}})
		if err == nil {
			t.Fatalf("input Filter declared with two different defaults for `first` was accepted")
		}
	}
}
