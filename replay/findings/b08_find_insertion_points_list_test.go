package executor

// Reproducer for B8 (C09): an object-typed field for which the service returns a list.

import (
	"testing"

	"github.com/vektah/gqlparser/v2/ast"
)

func TestReplayFindInsertionPointsEmptyListForObject(t *testing.T) {
	defer func() {
		if r := recover(); r != nil {
			t.Fatalf("FindInsertionPoints panicked: %v", r)
		}
	}()
	sel := ast.SelectionSet{&ast.Field{
		Name: "user", Alias: "user",
		Definition:   &ast.FieldDefinition{Name: "user", Type: ast.NamedType("User", nil)},
		SelectionSet: ast.SelectionSet{&ast.Field{Name: "id", Alias: "id", Definition: &ast.FieldDefinition{Name: "id", Type: ast.NonNullNamedType("ID", nil)}}},
	}}
	res := map[string]interface{}{"user": []interface{}{}}
	_, _ = FindInsertionPoints([]string{"user"}, sel, res, [][]string{{}})
}
