package merger

// Reproducer for B16 (C05, open, no obligation attached): whether three services merge depends
// on the order of the service list. A and B declare T{x, y} identically, C declares T{z}.
// [A, B, C]: A+B is a complete copy, then C is disjoint -> accepted, T{x, y, z}.
// [A, C, B]: A+C gives T{x, y, z}, then B{x, y} overlaps it partially -> rejected.

import (
	"testing"

	"github.com/vektah/gqlparser/v2"
	"github.com/vektah/gqlparser/v2/ast"
)

func TestReplayAcceptanceDependsOnServiceOrder(t *testing.T) {
	load := func(sdl string) *ast.Schema {
		s, err := gqlparser.LoadSchema(&ast.Source{Name: "s", Input: sdl})
		if err != nil {
			t.Fatal(err)
		}
		return s
	}
	a := `type T { x: Int y: Int } type Query { a: T }`
	b := `type T { x: Int y: Int } type Query { b: T }`
	c := `type T { z: Int } type Query { c: T }`
	accepted := func(order ...string) bool {
		var in []*MergeInput
		for i, s := range order {
			in = append(in, &MergeInput{Schema: load(s), URL: string(rune('1' + i))})
		}
		var m ExtendMergerFunc
		_, err := m.Merge(in)
		return err == nil
	}
	abc, acb := accepted(a, b, c), accepted(a, c, b)
	if abc != acb {
		t.Fatalf("acceptance depends on the service order: [A,B,C] accepted=%v, [A,C,B] accepted=%v", abc, acb)
	}
}
