package merger

// Reproducer for B35 (C05): mergeTypes skips the name Node before it compares kinds, so a service that declares
// `type Node { ... }` (an object) next to services declaring the Relay interface Node is accepted, and the kind
// of Node in the merged schema is the one of whichever service is listed first.
// Derived from merger.mergeTypes#inv-keep[3]{loop1:kinds}.

import (
	"testing"

	"github.com/vektah/gqlparser/v2"
	"github.com/vektah/gqlparser/v2/ast"
)

func b35Schema(t *testing.T, sdl string) *ast.Schema {
	t.Helper()
	s, err := gqlparser.LoadSchema(&ast.Source{Name: "s", Input: sdl})
	if err != nil {
		t.Fatal(err)
	}
	return s
}

func TestReplayNodeDeclaredWithAnotherKindIsRejected(t *testing.T) {
	iface := `interface Node { id: ID! } type A implements Node { id: ID! a: Int } type Query { a: A }`
	object := `type Node { id: ID! label: String } type Query { tree: Node }`
	for _, order := range [][2]string{{iface, object}, {object, iface}} {
		var m ExtendMergerFunc
		_, err := m.Merge([]*MergeInput{{Schema: b35Schema(t, order[0]), URL: "A"}, {Schema: b35Schema(t, order[1]), URL: "B"}})
		if err == nil {
			t.Fatalf("the name Node used for an interface and for an object was accepted (first service: %.30s...)", order[0])
		}
	}
}
