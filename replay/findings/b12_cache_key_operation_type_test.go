package planner

// Reproducer for B12 (C14, C06): the plan-cache key is computed from the selection set
// only, but planning also reads the operation type and name. `query { ping }` followed by
// `mutation { ping }` gets the cached query plan, so the mutation is sent as a query.

import (
	"strings"
	"testing"
	"time"

	"github.com/buildbuildio/pebbles/merger"
	"github.com/vektah/gqlparser/v2"
	"github.com/vektah/gqlparser/v2/ast"
)

func replayCtx(t *testing.T, schema *ast.Schema, tm merger.TypeURLMap, q string) *PlanningContext {
	t.Helper()
	doc, errs := gqlparser.LoadQuery(schema, q)
	if errs != nil {
		t.Fatal(errs)
	}
	return &PlanningContext{Operation: doc.Operations[0], Schema: schema, TypeURLMap: tm}
}

func TestReplayCacheKeyCoversOperationType(t *testing.T) {
	schema := gqlparser.MustLoadSchema(&ast.Source{Name: "s", Input: `type Query { ping: String } type Mutation { ping: String }`})
	tm := merger.TypeURLMap{}
	tm.Set("Query", "ping", "A")
	tm.Set("Mutation", "ping", "A")
	cp := NewCachedPlanner(time.Hour)
	p1, err := cp.Plan(replayCtx(t, schema, tm, `query { ping }`))
	if err != nil {
		t.Fatal(err)
	}
	p2, err := cp.Plan(replayCtx(t, schema, tm, `mutation { ping }`))
	if err != nil {
		t.Fatal(err)
	}
	if p1 == p2 || !strings.HasPrefix(strings.TrimSpace(p2.RootSteps[0].QueryString), "mutation") {
		t.Fatalf("mutation planned as %q (same plan object as the query: %v)", p2.RootSteps[0].QueryString, p1 == p2)
	}
}

func TestReplayCacheKeyCoversOperationName(t *testing.T) {
	schema := gqlparser.MustLoadSchema(&ast.Source{Name: "s", Input: `type Query { ping: String }`})
	tm := merger.TypeURLMap{}
	tm.Set("Query", "ping", "A")
	cp := NewCachedPlanner(time.Hour)
	if _, err := cp.Plan(replayCtx(t, schema, tm, `query First { ping }`)); err != nil {
		t.Fatal(err)
	}
	p2, err := cp.Plan(replayCtx(t, schema, tm, `query Second { ping }`))
	if err != nil {
		t.Fatal(err)
	}
	if p2.RootSteps[0].OperationName == nil || *p2.RootSteps[0].OperationName != "Second" {
		t.Fatalf("operation Second planned with the cached plan of operation First: %q", p2.RootSteps[0].QueryString)
	}
}
