package merger

// Reproducer for B17 (C03, C05): mergeRootObjects starts from the NEW schema's root fields and
// appends the accumulated ones while skipping the Relay `node` entry point, so `node`
// survives only if the LAST service that has a Query type declares it.

import (
	"testing"

	"github.com/vektah/gqlparser/v2"
	"github.com/vektah/gqlparser/v2/ast"
)

func TestReplayNodeEntryPointKeptWhateverTheOrder(t *testing.T) {
	load := func(sdl string) *ast.Schema {
		s, err := gqlparser.LoadSchema(&ast.Source{Name: "s", Input: sdl})
		if err != nil {
			t.Fatal(err)
		}
		return s
	}
	withNode := `interface Node { id: ID! } type A implements Node { id: ID! a: Int } type Query { node(id: ID!): Node a: A }`
	plain := `type Query { b: Int }`
	var m ExtendMergerFunc
	for _, order := range [][2]string{{withNode, plain}, {plain, withNode}} {
		res, err := m.Merge([]*MergeInput{{Schema: load(order[0]), URL: "1"}, {Schema: load(order[1]), URL: "2"}})
		if err != nil {
			t.Fatal(err)
		}
		if res.Schema.Query.Fields.ForName("node") == nil {
			t.Fatalf("Query.node is missing from the merged schema when the declaring service comes first=%v", order[0] == withNode)
		}
	}
}
