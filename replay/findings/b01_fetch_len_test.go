package queryer

// Reproducer for B1/B2 (C09, C11): a reply array whose length differs from the batch.
// Before the fix a longer reply panicked with "index out of range" in queryBatch and a
// shorter one was returned as nil results without an error.

import (
	"bytes"
	"io/ioutil"
	"net/http"
	"testing"

	"github.com/buildbuildio/pebbles/requests"
)

type replayRT func(*http.Request) *http.Response

func (f replayRT) RoundTrip(r *http.Request) (*http.Response, error) { return f(r), nil }

func replayQueryer(body string) *MultiOpQueryer {
	return NewMultiOpQueryer("http://x", 10).WithHTTPClient(&http.Client{Transport: replayRT(func(*http.Request) *http.Response {
		return &http.Response{StatusCode: 200, Body: ioutil.NopCloser(bytes.NewBufferString(body)), Header: http.Header{}}
	})})
}

func TestReplayFetchLongerReply(t *testing.T) {
	q := replayQueryer(`[{"data":{"a":1}},{"data":{"a":2}}]`)
	res, err := q.Query([]*requests.Request{{Query: "{ a }"}})
	if err == nil {
		t.Fatalf("2 results for 1 request accepted: %v", res)
	}
}

func TestReplayFetchShorterReply(t *testing.T) {
	for _, body := range []string{`[]`, `null`} {
		q := replayQueryer(body)
		res, err := q.Query([]*requests.Request{{Query: "{ a }"}})
		if err == nil {
			t.Fatalf("reply %s for 1 request accepted: %v", body, res)
		}
	}
}
