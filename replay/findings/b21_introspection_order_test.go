package introspection

// Reproducer (C13): __schema.types / directives are collected in map order and sorted by the
// "name" key of the RESULT objects, so the order is random when `name` is not selected.

import (
	"fmt"
	"testing"

	"github.com/vektah/gqlparser/v2"
	"github.com/vektah/gqlparser/v2/ast"
)

func TestReplayIntrospectionTypesOrder(t *testing.T) {
	schema := gqlparser.MustLoadSchema(&ast.Source{Name: "s", Input: `type Query { a: A b: B } type A { x: Int } type B { y: Int } enum E { V } input I { z: Int } interface J { w: Int } union U = A | B`})
	doc, errs := gqlparser.LoadQuery(schema, `{ __schema { types { kind } } }`)
	if errs != nil {
		t.Fatal(errs)
	}
	seen := map[string]bool{}
	for i := 0; i < 100; i++ {
		ir := &IntrospectionResolver{}
		res := ir.ResolveIntrospectionFields(doc.Operations[0].SelectionSet, schema)
		seen[fmt.Sprint(res)] = true
	}
	if len(seen) != 1 {
		t.Fatalf("the same introspection query was answered in %d different ways", len(seen))
	}
}
