package introspection

// Reproducer for B26 (C15, open): parseArgList rebuilds an argument without its default value, so the schema
// reconstructed from an introspection answer declares `first: Int` where the service declares `first: Int = 10`.

import (
	"testing"
)

func TestReplayArgumentDefaultValueIsKept(t *testing.T) {
	args := []IntrospectionInputValue{{Name: "first", Type: IntrospectionTypeRef{Kind: "SCALAR", Name: "Int"}, DefaultValue: "10"}}
	res := parseArgList(args)
	if len(res) != 1 {
		t.Fatalf("want one argument, got %d", len(res))
	}
	if res[0].DefaultValue == nil {
		t.Fatalf("the default value 10 of argument `first` is lost: the reconstructed schema declares first: Int without a default")
	}
}
