package merger

// Reproducer for B24 (C05): SanitizeNodeMergerFunc.Merge dereferenced res.Schema.Query; a set of schemas in which no service
// declares a Query type (accepted by gqlparser) made the gateway panic at start-up instead of returning a result or an error.

import (
	"testing"

	"github.com/vektah/gqlparser/v2"
	"github.com/vektah/gqlparser/v2/ast"
)

func TestReplaySanitizeMergerWithoutQueryType(t *testing.T) {
	s, err := gqlparser.LoadSchema(&ast.Source{Name: "s", Input: `type Mutation { a: Int }`})
	if err != nil {
		t.Skipf("schema without Query is rejected by the loader: %v", err)
	}
	defer func() {
		if r := recover(); r != nil {
			t.Fatalf("merging a schema without a Query type panicked: %v", r)
		}
	}()
	var m SanitizeNodeMergerFunc
	_, merr := m.Merge([]*MergeInput{{Schema: s, URL: "1"}})
	t.Logf("error: %v", merr)
}
