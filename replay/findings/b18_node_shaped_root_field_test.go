package merger

// Reproducer for B18 (C04, C03, C05): isNodeField never checks that the field is
// called "node", so every root field of shape (id: ID!): Node is treated as the Relay
// entry point: it gets no route, disappears from the merged Query type and may be
// declared by two services without complaint.

import (
	"testing"

	"github.com/vektah/gqlparser/v2"
	"github.com/vektah/gqlparser/v2/ast"
)

func replaySchema(t *testing.T, sdl string) *ast.Schema {
	t.Helper()
	s, err := gqlparser.LoadSchema(&ast.Source{Name: "s", Input: sdl})
	if err != nil {
		t.Fatal(err)
	}
	return s
}

func TestReplayNodeShapedRootFieldIsRouted(t *testing.T) {
	a := replaySchema(t, `interface Node { id: ID! } type A implements Node { id: ID! a: Int } type Query { node(id: ID!): Node lookup(id: ID!): Node a: A }`)
	b := replaySchema(t, `type Query { b: Int }`)
	var m ExtendMergerFunc
	res, err := m.Merge([]*MergeInput{{Schema: a, URL: "A"}, {Schema: b, URL: "B"}})
	if err != nil {
		t.Fatal(err)
	}
	if u, ok := res.TypeURLMap.Get("Query", "lookup"); !ok || u != "A" {
		t.Fatalf("Query.lookup has no route to its declaring service: %q %v", u, ok)
	}
	if res.Schema.Query.Fields.ForName("lookup") == nil {
		t.Fatalf("Query.lookup is missing from the merged schema")
	}
}

func TestReplayNodeShapedRootFieldDeclaredTwice(t *testing.T) {
	a := replaySchema(t, `interface Node { id: ID! } type A implements Node { id: ID! a: Int } type Query { lookup(id: ID!): Node a: A }`)
	b := replaySchema(t, `interface Node { id: ID! } type B implements Node { id: ID! b: Int } type Query { lookup(id: ID!): Node b: B }`)
	var m ExtendMergerFunc
	if _, err := m.Merge([]*MergeInput{{Schema: a, URL: "A"}, {Schema: b, URL: "B"}}); err == nil {
		t.Fatalf("root field lookup declared by two services was accepted")
	}
}
