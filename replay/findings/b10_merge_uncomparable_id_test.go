package executor

// Reproducer for B10 (C09): list entries whose "id" is a list or an object.

import "testing"

func TestReplayMergeSlicesUncomparableID(t *testing.T) {
	for _, id := range []interface{}{[]interface{}{}, map[string]interface{}{}} {
		func() {
			defer func() {
				if r := recover(); r != nil {
					t.Fatalf("mergeSlices panicked for id %T: %v", id, r)
				}
			}()
			l := []interface{}{map[string]interface{}{"id": id}}
			r := []interface{}{map[string]interface{}{"id": id}}
			_ = mergeSlices(l, r)
		}()
	}
}
