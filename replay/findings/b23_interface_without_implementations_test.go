package planner

// Reproducer for B23 (C07): addScrubFieldsToSelectionSet reads pt[0] of the possible types of an
// interface or union. A valid schema may declare an interface that no type implements (or that only
// types of a service that is not merged yet implement): any operation selecting a field of that
// type with a sub-selection makes the planner - and with it the per-operation goroutine of the
// handler, hence the process - panic with "index out of range [0] with length 0".

import (
	"testing"

	"github.com/buildbuildio/pebbles/merger"
	"github.com/vektah/gqlparser/v2"
	"github.com/vektah/gqlparser/v2/ast"
)

func TestReplayInterfaceWithoutImplementationsDoesNotPanic(t *testing.T) {
	sdl := `interface Thing { name: String } type Query { thing: Thing }`
	s, err := gqlparser.LoadSchema(&ast.Source{Name: "s", Input: sdl})
	if err != nil {
		t.Fatal(err)
	}
	tum := merger.TypeURLMap{}
	tum.SetFromSchema(s.Types, "svc")
	op, gerr := gqlparser.LoadQuery(s, `{ thing { name } }`)
	if gerr != nil {
		t.Fatal(gerr)
	}
	defer func() {
		if r := recover(); r != nil {
			t.Fatalf("planning a valid operation panicked: %v", r)
		}
	}()
	var sp SequentialPlanner
	_, _ = sp.Plan(&PlanningContext{Operation: op.Operations[0], Schema: s, TypeURLMap: tum})
}
