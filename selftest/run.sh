#!/bin/bash
# Must-fail / must-pass corpus for the checker itself. Run after every engine or contract change.
#   must fail : each "fix:" commit of /repo reverted (selftest/reverts.txt), each seeded change (seeded/*/patch.diff)
#   must pass : the unchanged tree, and behaviour-preserving rewrites (selftest/benign/*.diff, "# prop: Cxx" header)
# Every case runs against its own scratch copy of /repo (mktemp -d, removed afterwards); /repo is never touched and
# the evidence files of /verif are not rewritten. usage: selftest/run.sh [-j N] [filter-regex]
set -u
export GOFLAGS=-mod=mod GOPROXY=off GOSUMDB=off GOTOOLCHAIN=local
here="$(cd "$(dirname "$0")/.." && pwd)"
jobs=3; [ "${1:-}" = "-j" ] && { jobs="$2"; shift 2; }
filter="${1:-.}"
(cd "$here/gocv" && go build -o "$here/bin/gocv" .) || exit 2
work="$(mktemp -d)"; trap 'rm -rf "$work"' EXIT
list="$work/cases.txt"; : > "$list"
grep -v '^#' "$here/selftest/reverts.txt" | while read -r c p sub alt; do
  [ -n "$c" ] || continue
  if [ -n "${alt:-}" ]; then echo "revert-$c|fail|$p|$sub|$here/$alt" >> "$list"; else echo "revert-$c|fail|$p|$sub|revert:$c" >> "$list"; fi
done
for d in "$here"/seeded/*/; do
  n=$(basename "$d"); p=$(python3 -c "import json,sys;print(json.load(open(sys.argv[1]))['breaks_property'])" "$d/meta.json")
  det=$(python3 -c "import json,sys;print(json.load(open(sys.argv[1])).get('detected_by_check',True))" "$d/meta.json")
  # a seed recorded as not detected (meta.json, with the reason) is run too: it is reported, not counted as a failure,
  # and flagged if a later strengthening starts to catch it
  if [ "$det" = "False" ]; then echo "seed-$n|knownmiss|$p||$d/patch.diff" >> "$list"; else echo "seed-$n|fail|$p||$d/patch.diff" >> "$list"; fi
done
for f in "$here"/selftest/benign/*.diff; do
  [ -f "$f" ] || continue
  p=$(sed -n 's/^# prop: //p' "$f" | head -1)
  echo "benign-$(basename "$f" .diff)|pass|$p||$f" >> "$list"
done
run_case() {
  IFS='|' read -r name expect prop sub patch <<< "$1"
  d="$(mktemp -d)"
  cp -r /repo/. "$d/"; (cd "$d" && git checkout -q -- . && git clean -fdq)
  case "$patch" in
    revert:*) (cd "$d" && git show "${patch#revert:}" -- . ':!*zz_contracts_verif.go' | git apply -R) || { echo "ERROR $name: revert does not apply"; rm -rf "$d"; return; } ;;
    *) (cd "$d" && grep -v '^# ' "$patch" | git apply) || { echo "ERROR $name: patch does not apply"; rm -rf "$d"; return; } ;;
  esac
  if ! (cd "$d" && go build ./... && go vet -tags verif ./... ) >/dev/null 2>&1; then echo "ERROR $name: does not build"; rm -rf "$d"; return; fi
  out=$(GOCV_WORKERS=4 "$here/bin/gocv" check --repo "$d" --verif "$here" --evidence "$d/.evidence.json" --prop "$prop" --nocache 2>&1); rc=$?
  viol=$(echo "$out" | grep '^VIOLATION' | sed 's/replay=[^ ]* //')
  if [ "$expect" = fail ]; then
    if [ $rc -ne 0 ] && [ -n "$viol" ] && echo "$viol" | grep -q -- "$sub"; then echo "ok   $name: $prop reports $(echo "$viol" | head -1 | cut -c1-150)"
    else echo "MISS $name: $prop exit=$rc $(echo "$viol" | head -2 | cut -c1-200)"; fi
  elif [ "$expect" = knownmiss ]; then
    if [ $rc -ne 0 ] && [ -n "$viol" ]; then echo "ok   $name: $prop NOW reports $(echo "$viol" | head -1 | cut -c1-150) - update its meta.json"
    else echo "ok   $name: $prop still not detected (recorded miss, see its notes.md)"; fi
  else
    if [ $rc -eq 0 ] && [ -z "$viol" ]; then echo "ok   $name: $prop passes"
    else echo "FALSE-ALARM $name: $prop exit=$rc $(echo "$viol" | head -2 | cut -c1-200)"; fi
  fi
  rm -rf "$d"
}
export -f run_case; export here
grep -E "$filter" "$list" | xargs -P "$jobs" -I{} bash -c 'run_case "$@"' _ {} | tee "$work/out.txt"
bad=$(grep -c -E '^(MISS|FALSE-ALARM|ERROR)' "$work/out.txt")
echo "selftest: $(grep -c '^ok' "$work/out.txt") ok, $bad not ok"
[ "$bad" -eq 0 ]
