package main

import (
	"bytes"
	"context"
	"crypto/sha256"
	"encoding/hex"
	"encoding/json"
	"fmt"
	"os"
	"os/exec"
	"path/filepath"
	"strings"
	"sync"
	"time"
)

type SolveResult struct {
	Status  string   `json:"status"` // unsat | sat | unknown | timeout | error
	Solver  string   `json:"solver"`
	Seconds float64  `json:"seconds"`
	Model   string   `json:"model,omitempty"`
	Detail  string   `json:"detail,omitempty"`
	Cached  bool     `json:"cached,omitempty"`
	Tried   []string `json:"tried,omitempty"`
}

type Solver struct {
	Name string
	Args func(timeoutMs int, seed int) []string
	Bin  string
}

var solvers = []Solver{
	{Name: "z3-new", Bin: "z3-new", Args: func(ms, seed int) []string {
		return []string{fmt.Sprintf("-t:%d", ms), fmt.Sprintf("smt.random_seed=%d", seed), "-in"}
	}},
	{Name: "z3", Bin: "z3", Args: func(ms, seed int) []string {
		return []string{fmt.Sprintf("-t:%d", ms), fmt.Sprintf("smt.random_seed=%d", seed), "-in"}
	}},
	{Name: "cvc5", Bin: "cvc5", Args: func(ms, seed int) []string {
		return []string{fmt.Sprintf("--tlimit-per=%d", ms), "--strings-exp", "--lang=smt2", fmt.Sprintf("--seed=%d", seed), "-"}
	}},
}

type Portfolio struct {
	quickMs   int
	slowMs    int
	prunedMs  int
	usingMs   int
	seed      int
	cacheDir  string
	workDir   string
	mu        sync.Mutex
	perSolver map[string]float64
	nQueries  map[string]int
	wins      map[string]int
}

func newPortfolio(tier string, seed int, cacheDir string) *Portfolio {
	p := &Portfolio{quickMs: 2000, slowMs: 10000, prunedMs: 1500, usingMs: 10000, seed: seed, cacheDir: cacheDir, perSolver: map[string]float64{}, nQueries: map[string]int{}, wins: map[string]int{}}
	if tier == "thorough" {
		p.quickMs = 5000
		p.slowMs = 60000
		p.prunedMs = 4000
		p.usingMs = 60000
	}
	if cacheDir != "" {
		os.MkdirAll(cacheDir, 0o755)
	}
	return p
}

func runSolver(s Solver, query string, ms, seed int) SolveResult {
	return runSolverCtx(context.Background(), s, query, ms, seed)
}

func runSolverCtx(parent context.Context, s Solver, query string, ms, seed int) SolveResult {
	ctx, cancel := context.WithTimeout(parent, time.Duration(ms+2000)*time.Millisecond)
	defer cancel()
	cmd := exec.CommandContext(ctx, s.Bin, s.Args(ms, seed)...)
	q := query
	if s.Name == "cvc5" {
		// cvc5 wants produce-models before set-logic: already first in the prelude
	}
	cmd.Stdin = strings.NewReader(q)
	var out, errb bytes.Buffer
	cmd.Stdout = &out
	cmd.Stderr = &errb
	t0 := time.Now()
	err := cmd.Run()
	dt := time.Since(t0).Seconds()
	text := out.String()
	first := strings.TrimSpace(strings.SplitN(text, "\n", 2)[0])
	res := SolveResult{Solver: s.Name, Seconds: dt}
	switch first {
	case "unsat":
		res.Status = "unsat"
	case "sat":
		res.Status = "sat"
		if i := strings.Index(text, "\n"); i >= 0 {
			res.Model = strings.TrimSpace(text[i+1:])
		}
	case "unknown":
		res.Status = "unknown"
		if strings.Contains(text, "timeout") || strings.Contains(text, "canceled") || dt*1000 >= float64(ms)*0.95 {
			res.Status = "timeout"
		}
	default:
		if ctx.Err() != nil || strings.Contains(text, "timeout") || strings.Contains(errb.String(), "timeout") || strings.Contains(errb.String(), "interrupted") {
			res.Status = "timeout"
		} else {
			res.Status = "error"
			d := text + errb.String()
			if err != nil {
				d += " " + err.Error()
			}
			if len(d) > 600 {
				d = d[:600]
			}
			res.Detail = d
		}
	}
	return res
}

func (p *Portfolio) account(r SolveResult) {
	p.mu.Lock()
	p.perSolver[r.Solver] += r.Seconds
	p.nQueries[r.Solver]++
	p.mu.Unlock()
}

// solvePruned: one quick z3-new attempt on a pruned query (cached).
func (p *Portfolio) solvePruned(query string) SolveResult {
	return p.solvePrunedT(query, p.prunedMs, false)
}

func (p *Portfolio) solvePrunedT(query string, ms int, all3 bool) SolveResult {
	key := ""
	if p.cacheDir != "" {
		h := sha256.Sum256([]byte(query))
		key = filepath.Join(p.cacheDir, hex.EncodeToString(h[:])+".json")
		if b, err := os.ReadFile(key); err == nil {
			var r SolveResult
			if json.Unmarshal(b, &r) == nil && r.Status == "unsat" {
				r.Cached = true
				return r
			}
		}
	}
	// z3 5.1 and z3 4.8 raced: they fail on different queries
	// (cvc5 joins for the hypothesis selection given in the contract: it alone decided some
	// goals with an existential conclusion over an appended list)
	race := []Solver{solvers[0], solvers[1]}
	if all3 {
		race = solvers[:3]
	}
	seeds := make([]int, len(race))
	for i := range seeds {
		seeds[i] = p.seed
	}
	if all3 {
		// z3 4.8 a second time under another seed: it decides most of these in well under a second,
		// but which seed does is not stable across unrelated changes of the query text
		race = append(append([]Solver{}, race...), solvers[1])
		seeds = append(seeds, p.seed+7)
	}
	ch := make(chan SolveResult, len(race))
	rctx, rcancel := context.WithCancel(context.Background())
	defer rcancel() // kills the losers
	for i, sv := range race {
		go func(sv Solver, seed int) { ch <- runSolverCtx(rctx, sv, query+"(check-sat)\n", ms, seed) }(sv, seeds[i])
	}
	r := <-ch
	p.account(r)
	for i := 1; i < len(race) && r.Status != "unsat"; i++ {
		r2 := <-ch
		p.account(r2)
		if r2.Status == "unsat" {
			r = r2
		}
	}
	if key != "" && r.Status == "unsat" {
		if b, err := json.Marshal(r); err == nil {
			os.WriteFile(key, b, 0o644)
		}
	}
	return r
}

// solve decides one query: z3-new first, then the other two raced.
func (p *Portfolio) solve(query string, wantModel bool) SolveResult {
	key := ""
	if p.cacheDir != "" {
		h := sha256.Sum256([]byte(query))
		key = filepath.Join(p.cacheDir, hex.EncodeToString(h[:])+".json")
		if b, err := os.ReadFile(key); err == nil {
			var r SolveResult
			if json.Unmarshal(b, &r) == nil && (r.Status == "unsat" || r.Status == "sat") {
				r.Cached = true
				return r
			}
		}
	}
	q := query + "(check-sat)\n"
	var tried []string
	best := SolveResult{Status: "unknown"}
	record := func(r SolveResult) {
		p.account(r)
		tried = append(tried, fmt.Sprintf("%s:%s:%.2fs", r.Solver, r.Status, r.Seconds))
		if r.Status == "error" && best.Detail == "" {
			best.Detail = r.Solver + ": " + r.Detail
		}
	}
	r := runSolver(solvers[0], q, p.quickMs, p.seed)
	record(r)
	if r.Status == "unsat" || r.Status == "sat" {
		best = r
	} else if !wantModel {
		// cover (vacuity) checks: one cheap attempt is enough, "not refuted" is acceptable
		best = r
	} else {
		// race the others (and z3-new with the long timeout)
		ch := make(chan SolveResult, 3)
		rctx, rcancel := context.WithCancel(context.Background())
		defer rcancel() // kills the losers
		cands := []Solver{solvers[1], solvers[2], solvers[0]}
		for _, s := range cands {
			go func(s Solver) { ch <- runSolverCtx(rctx, s, q, p.slowMs, p.seed) }(s)
		}
		for range cands {
			rr := <-ch
			record(rr)
			if (rr.Status == "unsat" || rr.Status == "sat") && best.Status != "unsat" && best.Status != "sat" {
				best = rr
				break
			}
			if rr.Status == "timeout" && best.Status == "unknown" {
				best.Status = "timeout"
				best.Solver = rr.Solver
				best.Seconds = rr.Seconds
			}
		}
	}
	if best.Status == "sat" && wantModel {
		// second run for the model (z3 4.8 fails on get-model after unsat, so never ask in the first run)
		for _, s := range solvers {
			if s.Name == best.Solver {
				mr := runSolver(s, query+"(check-sat)\n(get-model)\n", p.slowMs, p.seed)
				if mr.Status == "sat" {
					best.Model = mr.Model
				}
			}
		}
	}
	best.Tried = tried
	p.mu.Lock()
	p.wins[best.Solver+":"+best.Status]++
	p.mu.Unlock()
	if key != "" && (best.Status == "unsat" || best.Status == "sat") {
		if b, err := json.Marshal(best); err == nil {
			os.WriteFile(key, b, 0o644)
		}
	}
	return best
}

// buildQuery assembles the SMT text of one obligation.
func buildQuery(prelude string, fv *FV, o *Obligation) string {
	qs := buildQueries(prelude, fv, o, nil)
	return qs[len(qs)-1]
}

// buildQueries returns the query variants of an obligation: relevance-pruned ones
// (by depth) first, the full query last.
func buildQueries(prelude string, fv *FV, o *Obligation, depths []int) []string {
	var lines, usingLines []string
	use := map[string]bool{}
	for _, u := range o.Using {
		use[u] = true
	}
	for i, l := range fv.script[:o.Prefix] {
		// lines of a closed side exploration are irrelevant to later obligations
		if r := fv.scriptRegion[i]; r != 0 && r != o.Region {
			continue
		}
		lines = append(lines, l)
		// "@using": keep code semantics and the named clauses, drop other contract clauses that are quantified
		if len(use) > 0 {
			og := fv.scriptOrigin[i]
			if og == "" || use[og] || !strings.Contains(l, "(forall ") && !strings.Contains(l, "(exists ") {
				usingLines = append(usingLines, l)
			}
		}
	}
	goal := o.Goal
	var decls, extra []string
	// facts about blocks that are not on a path to this obligation are dropped from every
	// variant except the last (full) one
	onPath := lines
	if o.Expect == "unsat" && os.Getenv("GOCV_NO_ONPATH") == "" {
		onPath = onPathOnly(lines, o.Guard)
		usingLines = onPathOnly(usingLines, o.Guard)
	}
	if o.Expect == "unsat" && !noInstantiate {
		decls, extra, goal = augment(onPath, o.Guard, o.Goal, fv.eng.intFuncs)
	}
	// skolem declarations first, then the script, then the instances (which are ordinary hypotheses)
	all := append(append(append([]string{}, decls...), lines...), extra...)
	allOnPath := append(append(append([]string{}, decls...), onPath...), extra...)
	assemble := func(ls []string) string {
		var b strings.Builder
		b.WriteString(prelude)
		for _, l := range ls {
			b.WriteString(l)
			b.WriteByte('\n')
		}
		b.WriteString(sx("assert", o.Guard))
		b.WriteByte('\n')
		b.WriteString(sx("assert", not(goal)))
		b.WriteByte('\n')
		return gcDecls(b.String())
	}
	var out []string
	// quantifier-free variant: the code semantics and the ground instances spelled out by the
	// generator, every quantified line dropped (also the negated goal when it is quantified: its
	// instances are among the extras). A subset of consequences of the full query, so "unsat" is a
	// proof; being quantifier free it is decided in a stable time, whatever the solver's heuristics.
	ground := func(ls []string) []string {
		var g []string
		for _, l := range ls {
			if strings.Contains(l, "(forall ") || strings.Contains(l, "(exists ") {
				continue
			}
			g = append(g, l)
		}
		return g
	}
	assembleGround := func(ls []string) string {
		var b strings.Builder
		b.WriteString(prelude)
		for _, l := range ground(ls) {
			b.WriteString(l)
			b.WriteByte('\n')
		}
		b.WriteString(sx("assert", o.Guard))
		b.WriteByte('\n')
		if !strings.Contains(goal, "(forall ") && !strings.Contains(goal, "(exists ") {
			b.WriteString(sx("assert", not(goal)))
			b.WriteByte('\n')
		}
		return gcDecls(b.String())
	}
	if o.Expect == "unsat" && len(use) > 0 {
		d2, e2, g2 := augment(usingLines, o.Guard, o.Goal, fv.eng.intFuncs)
		save := goal
		goal = g2
		ls := append(append(append([]string{}, d2...), usingLines...), e2...)
		out = append(out, "; kind=ground\n"+assembleGround(ls))
		out = append(out, "; kind=using\n"+assemble(ls))
		goal = save
	} else if o.Expect == "unsat" && len(extra) > 0 {
		out = append(out, "; kind=ground\n"+assembleGround(allOnPath))
	}
	if o.Expect == "unsat" {
		for _, d := range depths {
			out = append(out, assemble(prune(allOnPath, nil, o.Guard, goal, d)))
		}
	}
	out = append(out, assemble(all))
	return out
}

var noInstantiate = false

func solveAll(p *Portfolio, jobs []*job, workers int) {
	var wg sync.WaitGroup
	ch := make(chan *job)
	for i := 0; i < workers; i++ {
		wg.Add(1)
		go func() {
			defer wg.Done()
			for j := range ch {
				var tried []string
				done := false
				for pi, pq := range j.pruned {
					ms := p.prunedMs
					isUsing := strings.HasPrefix(pq, "; kind=using")
					if isUsing {
						ms = p.usingMs // the hypothesis selection given in the contract gets a generous budget
					}
					if strings.HasPrefix(pq, "; kind=ground") {
						ms = 2 * p.prunedMs
					}
					_ = pi
					pr := p.solvePrunedT(pq, ms, isUsing)
					tried = append(tried, fmt.Sprintf("pruned:%s:%s:%.2fs", pr.Solver, pr.Status, pr.Seconds))
					if pr.Status == "unsat" {
						pr.Tried = tried
						pr.Detail = "proved from a relevance-pruned subset of the hypotheses"
						j.o.Result = &pr
						done = true
						break
					}
				}
				if done {
					continue
				}
				r := p.solve(j.query, j.o.Expect == "unsat")
				r.Tried = append(tried, r.Tried...)
				j.o.Result = &r
			}
		}()
	}
	for _, j := range jobs {
		ch <- j
	}
	close(ch)
	wg.Wait()
	// second chance on a quiet machine: an undecided obligation (timeout/unknown, never "sat")
	// is retried alone with a three times larger budget before it is reported
	var again []*job
	for _, j := range jobs {
		if j.o.Expect == "unsat" && j.o.Result != nil && (j.o.Result.Status == "timeout" || j.o.Result.Status == "unknown") {
			again = append(again, j)
		}
	}
	if len(again) > 0 && len(again) <= 12 {
		saveU, saveP, saveQ, saveS := p.usingMs, p.prunedMs, p.quickMs, p.slowMs
		p.usingMs *= 3
		p.prunedMs *= 3
		p.quickMs *= 3
		p.slowMs *= 3
		saveSeed := p.seed
		// the retry also varies the solver seed (a proof under any seed is a proof): the verdict of a
		// check must not depend on which seed the caller happened to export
		for attempt := 0; attempt < 3; attempt++ {
			p.seed = saveSeed + attempt
			if attempt > 0 {
				// the other seeds at the normal budget
				p.usingMs, p.prunedMs, p.quickMs, p.slowMs = saveU, saveP, saveQ, saveS
			}
			var still []*job
			for _, j := range again {
				if attempt > 0 && (j.o.Result == nil || (j.o.Result.Status != "timeout" && j.o.Result.Status != "unknown")) {
					continue
				}
				still = append(still, j)
			}
			// up to three retried obligations side by side (each races at most three solver processes)
			var rwg sync.WaitGroup
			sem := make(chan struct{}, 3)
			for _, j := range still {
				rwg.Add(1)
				sem <- struct{}{}
				go func(j *job) {
					defer func() { <-sem; rwg.Done() }()
					first := j.o.Result
					var tried []string
					done := false
					for pi, pq := range j.pruned {
						ms := p.prunedMs
						isUsing := strings.HasPrefix(pq, "; kind=using")
						if isUsing {
							ms = p.usingMs
						}
						if strings.HasPrefix(pq, "; kind=ground") {
							ms = 2 * p.prunedMs
						}
						_ = pi
						pr := p.solvePrunedT(pq, ms, isUsing)
						tried = append(tried, fmt.Sprintf("retry-pruned:%s:%s:%.2fs", pr.Solver, pr.Status, pr.Seconds))
						if pr.Status == "unsat" {
							pr.Tried = append(first.Tried, tried...)
							pr.Detail = "proved on retry (quiet machine, 3x budget) from a pruned subset of the hypotheses"
							j.o.Result = &pr
							done = true
							break
						}
					}
					if done {
						return
					}
					r := p.solve(j.query, true)
					r.Tried = append(append(first.Tried, tried...), r.Tried...)
					j.o.Result = &r
				}(j)
			}
			rwg.Wait()
		}
		p.seed = saveSeed
		p.usingMs, p.prunedMs, p.quickMs, p.slowMs = saveU, saveP, saveQ, saveS
	}
}

type job struct {
	o      *Obligation
	query  string   // full query
	pruned []string // relevance-pruned variants, tried first (only "unsat" counts)
}
