package main

// Translation of contract expressions (Go expression syntax + a few
// pseudo-functions) into SMT terms over a symbolic state.

import (
	"fmt"
	"go/ast"
	"go/constant"
	"go/token"
	"go/types"
	"strconv"
	"strings"
)

type SVal struct {
	t  string
	ty types.Type // nil for untyped nil
}

type specError struct{ msg string }

func specFail(format string, args ...interface{}) {
	panic(specError{fmt.Sprintf(format, args...)})
}

type SpecCtx struct {
	fv    *FV
	vars  map[string]SVal
	st    *State
	old   *State
	pkg   *types.Package
	scope *types.Scope // file scope of the contract file (imports)
	funcs map[string]func(c *SpecCtx, args []ast.Expr) SVal
	// captured variables of a closure: name -> pointer to the cell
	cellVars map[string]SVal
	// locals of the enclosing function, resolved against a state
	lookup func(name string, st *State) (SVal, bool)
	// watermark above which objects count as fresh(); "" = the function's entry watermark
	freshBase string
	loopBase  string // watermark at the entry of the loop whose invariant is translated
	loopPre   *State // state at the entry of that loop (atloop(x))
	loopHead  *State // state at the head of the current iteration (athead(x)), in step clauses only
	// inOld: evaluating inside old(): parameter names denote entry values
	inOld bool
	// asGoal: the clause is being proved (unfolding() contributes its definition as a hypothesis)
	asGoal bool
	// fold: item(k)
	item func(c *SpecCtx, k string) SVal
	// optional hooks
	done func(k string) string // fold: done(k)
	seen func(k SVal) string   // map-range loops: seen(key)
}

func (c *SpecCtx) with(vars map[string]SVal) *SpecCtx {
	n := *c
	n.vars = make(map[string]SVal, len(c.vars)+len(vars))
	for k, v := range c.vars {
		n.vars[k] = v
	}
	for k, v := range vars {
		n.vars[k] = v
	}
	return &n
}

var tInt = types.Typ[types.Int]
var tBool = types.Typ[types.Bool]
var tString = types.Typ[types.String]

func (c *SpecCtx) trBool(e ast.Expr) string {
	v := c.tr(e)
	if v.ty == nil || c.fv.u.sortOf(v.ty) != "Bool" {
		specFail("expected boolean expression, got %s", exprString(e))
	}
	return v.t
}

func exprString(e ast.Expr) string { return types.ExprString(e) }

func (c *SpecCtx) resolveType(e ast.Expr) types.Type {
	s := exprString(e)
	eng := c.fv.eng
	pkg := c.pkg
	pos := eng.contractPos[pkg.Path()]
	tv, err := types.Eval(eng.fset, pkg, pos, s)
	if err != nil || !tv.IsType() {
		specFail("cannot resolve type %q: %v", s, err)
	}
	return tv.Type
}

func (c *SpecCtx) lookupPkgObj(name string) types.Object {
	if c.scope != nil {
		if o := c.scope.Lookup(name); o != nil {
			return o
		}
	}
	if o := c.pkg.Scope().Lookup(name); o != nil {
		return o
	}
	return types.Universe.Lookup(name)
}

func (c *SpecCtx) constVal(o *types.Const) SVal {
	v := o.Val()
	switch v.Kind() {
	case constant.Bool:
		if constant.BoolVal(v) {
			return SVal{"true", o.Type()}
		}
		return SVal{"false", o.Type()}
	case constant.String:
		return SVal{strLit(constant.StringVal(v)), defaultType(o.Type())}
	case constant.Int:
		n, _ := constant.Int64Val(v)
		return SVal{intLit(n), defaultType(o.Type())}
	}
	specFail("unsupported constant %s", o.Name())
	return SVal{}
}

func defaultType(t types.Type) types.Type {
	if b, ok := t.(*types.Basic); ok && b.Info()&types.IsUntyped != 0 {
		return types.Default(t)
	}
	return t
}

func (c *SpecCtx) tr(e ast.Expr) SVal {
	fv := c.fv
	u := fv.u
	switch x := e.(type) {
	case *ast.ParenExpr:
		return c.tr(x.X)
	case *ast.BasicLit:
		switch x.Kind {
		case token.INT:
			n, err := strconv.ParseInt(x.Value, 0, 64)
			if err != nil {
				specFail("bad int %s", x.Value)
			}
			return SVal{intLit(n), tInt}
		case token.STRING:
			s, err := strconv.Unquote(x.Value)
			if err != nil {
				specFail("bad string %s", x.Value)
			}
			return SVal{strLit(s), tString}
		case token.CHAR:
			s, _, _, err := strconv.UnquoteChar(x.Value[1:len(x.Value)-1], '\'')
			if err != nil {
				specFail("bad char %s", x.Value)
			}
			return SVal{intLit(int64(s)), tInt}
		}
		specFail("unsupported literal %s", x.Value)
	case *ast.Ident:
		switch x.Name {
		case "true":
			return SVal{"true", tBool}
		case "false":
			return SVal{"false", tBool}
		case "nil":
			return SVal{"nil", nil}
		}
		if v, ok := c.vars[x.Name]; ok {
			return v
		}
		if cv, ok := c.cellVars[x.Name]; ok {
			return c.loadPtr(cv.t, cv.ty.Underlying().(*types.Pointer).Elem())
		}
		if c.inOld {
			if v, ok := fv.params[x.Name]; ok {
				return v
			}
		}
		if c.lookup != nil {
			if v, ok := c.lookup(x.Name, c.st); ok {
				return v
			}
		}
		o := c.lookupPkgObj(x.Name)
		switch oo := o.(type) {
		case *types.Const:
			return c.constVal(oo)
		case *types.Var:
			return c.globalVar(oo)
		}
		specFail("unknown identifier %q", x.Name)
	case *ast.UnaryExpr:
		switch x.Op {
		case token.NOT:
			return SVal{not(c.trBool(x.X)), tBool}
		case token.SUB:
			v := c.tr(x.X)
			return SVal{sx("-", v.t), v.ty}
		}
		specFail("unsupported unary %s", x.Op)
	case *ast.StarExpr:
		v := c.tr(x.X)
		p, ok := v.ty.Underlying().(*types.Pointer)
		if !ok {
			specFail("deref of non-pointer %s", exprString(x.X))
		}
		return c.loadPtr(v.t, p.Elem())
	case *ast.BinaryExpr:
		switch x.Op {
		case token.LAND:
			return SVal{and(c.trBool(x.X), c.trBool(x.Y)), tBool}
		case token.LOR:
			return SVal{or(c.trBool(x.X), c.trBool(x.Y)), tBool}
		case token.EQL, token.NEQ:
			a, b := c.tr(x.X), c.tr(x.Y)
			t := c.equal(a, b)
			if x.Op == token.NEQ {
				t = not(t)
			}
			return SVal{t, tBool}
		case token.LSS, token.LEQ, token.GTR, token.GEQ:
			a, b := c.tr(x.X), c.tr(x.Y)
			op := map[token.Token]string{token.LSS: "<", token.LEQ: "<=", token.GTR: ">", token.GEQ: ">="}[x.Op]
			if a.ty != nil && u.sortOf(a.ty) == "String" {
				sop := map[string]string{"<": "str.<", "<=": "str.<="}[op]
				if sop == "" {
					if op == ">" {
						return SVal{sx("str.<", b.t, a.t), tBool}
					}
					return SVal{sx("str.<=", b.t, a.t), tBool}
				}
				return SVal{sx(sop, a.t, b.t), tBool}
			}
			return SVal{sx(op, a.t, b.t), tBool}
		case token.ADD:
			a, b := c.tr(x.X), c.tr(x.Y)
			if a.ty != nil && u.sortOf(a.ty) == "String" {
				return SVal{sx("str.++", a.t, b.t), a.ty}
			}
			return SVal{sx("+", a.t, b.t), a.ty}
		case token.SUB:
			a, b := c.tr(x.X), c.tr(x.Y)
			return SVal{sx("-", a.t, b.t), a.ty}
		case token.MUL:
			a, b := c.tr(x.X), c.tr(x.Y)
			return SVal{sx("*", a.t, b.t), a.ty}
		case token.QUO:
			a, b := c.tr(x.X), c.tr(x.Y)
			return SVal{sx("go-div", a.t, b.t), a.ty}
		case token.REM:
			a, b := c.tr(x.X), c.tr(x.Y)
			return SVal{sx("go-mod", a.t, b.t), a.ty}
		}
		specFail("unsupported binary %s", x.Op)
	case *ast.SelectorExpr:
		// package-qualified?
		if id, ok := x.X.(*ast.Ident); ok {
			if _, isVar := c.vars[id.Name]; !isVar {
				if pn, ok := c.lookupPkgObj(id.Name).(*types.PkgName); ok {
					o := pn.Imported().Scope().Lookup(x.Sel.Name)
					switch oo := o.(type) {
					case *types.Const:
						return c.constVal(oo)
					case *types.Var:
						return c.globalVar(oo)
					}
					specFail("unsupported package member %s.%s", id.Name, x.Sel.Name)
				}
				if c.lookup == nil || func() bool { _, ok := c.lookup(id.Name, c.st); return !ok }() {
					if _, isCell := c.cellVars[id.Name]; !isCell {
						for path, p := range fv.eng.pkgByPath {
							if p.Types != nil && fv.eng.inRepo(path) && p.Types.Name() == id.Name {
								switch oo := p.Types.Scope().Lookup(x.Sel.Name).(type) {
								case *types.Const:
									return c.constVal(oo)
								case *types.Var:
									return c.globalVar(oo)
								}
							}
						}
					}
				}
			}
		}
		v := c.tr(x.X)
		return c.field(v, x.Sel.Name)
	case *ast.IndexExpr:
		v := c.tr(x.X)
		if v.ty == nil {
			specFail("index of nil")
		}
		switch tt := v.ty.Underlying().(type) {
		case *types.Slice:
			i := c.tr(x.Index)
			if est, ok := tt.Elem().Underlying().(*types.Struct); ok {
				r := fv.eaRef(tt.Elem(), sx("s-base", v.t), sx("+", sx("s-off", v.t), i.t))
				return SVal{fv.loadStruct(c.st, r, tt.Elem(), est), tt.Elem()}
			}
			f := fv.elemFam(tt.Elem())
			return SVal{fv.read(c.st, f, sx("s-base", v.t), sx("+", sx("s-off", v.t), i.t)), tt.Elem()}
		case *types.Map:
			k := c.tr(x.Index)
			k = c.coerce(k, tt.Key())
			return SVal{fv.mapGet(c.st, v.ty, v.t, k.t), tt.Elem()}
		case *types.Basic:
			if tt.Info()&types.IsString != 0 {
				i := c.tr(x.Index)
				return SVal{sx("str.to_code", sx("str.at", v.t, i.t)), types.Typ[types.Uint8]}
			}
		}
		specFail("cannot index %s", exprString(x.X))
	case *ast.SliceExpr:
		v := c.tr(x.X)
		if _, ok := v.ty.Underlying().(*types.Slice); !ok {
			if b, ok := v.ty.Underlying().(*types.Basic); ok && b.Info()&types.IsString != 0 {
				lo := "0"
				if x.Low != nil {
					lo = c.tr(x.Low).t
				}
				hi := sx("str.len", v.t)
				if x.High != nil {
					hi = c.tr(x.High).t
				}
				return SVal{sx("str.substr", v.t, lo, sx("-", hi, lo)), v.ty}
			}
			specFail("cannot slice %s", exprString(x.X))
		}
		lo := "0"
		if x.Low != nil {
			lo = c.tr(x.Low).t
		}
		hi := sx("s-len", v.t)
		if x.High != nil {
			hi = c.tr(x.High).t
		}
		return SVal{sx("mk-slice", sx("s-base", v.t), sx("+", sx("s-off", v.t), lo), sx("-", hi, lo), sx("-", sx("s-cap", v.t), lo)), v.ty}
	case *ast.TypeAssertExpr:
		v := c.tr(x.X)
		t := c.resolveType(x.Type)
		return SVal{u.unbox(v.t, t), t}
	case *ast.CallExpr:
		return c.call(x)
	}
	specFail("unsupported expression %s (%T)", exprString(e), e)
	return SVal{}
}

func (c *SpecCtx) globalVar(o *types.Var) SVal {
	fv := c.fv
	key := "G|" + o.Pkg().Path() + "." + o.Name()
	f := fv.family(key, nil, fv.u.sortOf(o.Type()))
	return SVal{fv.read(c.st, f), o.Type()}
}

func (c *SpecCtx) loadPtr(p string, elem types.Type) SVal {
	fv := c.fv
	if st, ok := elem.Underlying().(*types.Struct); ok {
		return SVal{fv.loadStruct(c.st, p, elem, st), elem}
	}
	return SVal{fv.read(c.st, fv.cellFam(elem), p), elem}
}

func (c *SpecCtx) field(v SVal, name string) SVal {
	fv := c.fv
	if v.ty == nil {
		specFail("field of nil")
	}
	t := v.ty
	isPtr := false
	if p, ok := t.Underlying().(*types.Pointer); ok {
		t = p.Elem()
		isPtr = true
	}
	st, ok := t.Underlying().(*types.Struct)
	if !ok {
		specFail("field %s of non-struct %s", name, t)
	}
	// find field, following embedded structs one level
	for i := 0; i < st.NumFields(); i++ {
		if st.Field(i).Name() == name {
			if isPtr {
				ft := fv.loadField(c.st, v.t, t, i)
				if _, ok := fv.eng.nonNilFields[fmt.Sprintf("H|%s|%s", typeKey(t), name)]; ok && !fv.noSpecAssume && !strings.Contains(v.t, "q!") {
					// field invariant: also available to specifications
					fv.assume(c.st, implies(sx("distinct", v.t, "0"), fv.nonNilTerm(ft, st.Field(i).Type())))
				}
				return SVal{ft, st.Field(i).Type()}
			}
			return SVal{sx(fmt.Sprintf("%s.%d", fv.u.sortOf(t), i), v.t), st.Field(i).Type()}
		}
	}
	for i := 0; i < st.NumFields(); i++ {
		if st.Field(i).Embedded() {
			ft := st.Field(i).Type()
			var inner SVal
			if isPtr {
				inner = SVal{fv.loadField(c.st, v.t, t, i), ft}
			} else {
				inner = SVal{sx(fmt.Sprintf("%s.%d", fv.u.sortOf(t), i), v.t), ft}
			}
			it := ft
			if p, ok := it.Underlying().(*types.Pointer); ok {
				it = p.Elem()
			}
			if ist, ok := it.Underlying().(*types.Struct); ok {
				for j := 0; j < ist.NumFields(); j++ {
					if ist.Field(j).Name() == name {
						return c.field(inner, name)
					}
				}
			}
		}
	}
	specFail("no field %s in %s", name, t)
	return SVal{}
}

// coerce adapts a value to an expected type (untyped nil, concrete -> interface).
func (c *SpecCtx) coerce(v SVal, want types.Type) SVal {
	u := c.fv.u
	if v.ty == nil {
		return SVal{u.zero(want), want}
	}
	if _, isIface := want.Underlying().(*types.Interface); isIface {
		if _, vIface := v.ty.Underlying().(*types.Interface); !vIface {
			return SVal{u.box(v.t, v.ty), want}
		}
	}
	return v
}

func (c *SpecCtx) equal(a, b SVal) string {
	u := c.fv.u
	if a.ty == nil && b.ty == nil {
		return "true"
	}
	if a.ty == nil {
		a, b = b, a
	}
	if b.ty == nil {
		// comparison with nil
		switch a.ty.Underlying().(type) {
		case *types.Slice:
			return eq(sx("s-base", a.t), "0")
		case *types.Interface:
			return eq(a.t, "any-nil")
		default:
			return eq(a.t, "0")
		}
	}
	_, ai := a.ty.Underlying().(*types.Interface)
	_, bi := b.ty.Underlying().(*types.Interface)
	if ai && !bi {
		b = SVal{u.box(b.t, b.ty), a.ty}
	} else if bi && !ai {
		a = SVal{u.box(a.t, a.ty), b.ty}
	}
	return eq(a.t, b.t)
}

func (c *SpecCtx) bindInt(e ast.Expr) (string, string) {
	id, ok := e.(*ast.Ident)
	if !ok {
		specFail("bound variable must be an identifier, got %s", exprString(e))
	}
	return id.Name, "q!" + id.Name
}

func (c *SpecCtx) quant(q string, args []ast.Expr) SVal {
	// forall(k, lo, hi, body) ; forall(k, body)
	name, sym := c.bindInt(args[0])
	sym = c.fv.fresh(sym)
	inner := c.with(map[string]SVal{name: {sym, tInt}})
	var rng, body string
	switch len(args) {
	case 4:
		lo, hi := c.tr(args[1]), c.tr(args[2])
		rng = and(sx("<=", lo.t, sym), sx("<", sym, hi.t))
		body = inner.trBool(args[3])
	case 2:
		rng = "true"
		body = inner.trBool(args[1])
	default:
		specFail("%s needs (k, lo, hi, body) or (k, body)", q)
	}
	if q == "forall" {
		if b := implies(rng, body); b == "true" {
			return SVal{"true", tBool}
		} else {
			return SVal{fmt.Sprintf("(forall ((%s Int)) %s)", sym, b), tBool}
		}
	}
	if b := and(rng, body); b == "false" {
		return SVal{"false", tBool}
	} else {
		return SVal{fmt.Sprintf("(exists ((%s Int)) %s)", sym, b), tBool}
	}
}

func (c *SpecCtx) quantT(q string, args []ast.Expr) SVal {
	// forallT(k, Type, body)
	if len(args) != 3 {
		specFail("%s needs (k, Type, body)", q)
	}
	name, sym := c.bindInt(args[0])
	sym = c.fv.fresh(sym)
	t := c.resolveType(args[1])
	inner := c.with(map[string]SVal{name: {sym, t}})
	body := inner.trBool(args[2])
	srt := c.fv.u.sortOf(t)
	if strings.HasPrefix(q, "forall") {
		return SVal{fmt.Sprintf("(forall ((%s %s)) %s)", sym, srt, body), tBool}
	}
	return SVal{fmt.Sprintf("(exists ((%s %s)) %s)", sym, srt, body), tBool}
}

func (c *SpecCtx) call(x *ast.CallExpr) SVal {
	fv := c.fv
	u := fv.u
	// pseudo functions
	if id, ok := x.Fun.(*ast.Ident); ok {
		if f, ok := c.funcs[id.Name]; ok {
			return f(c, x.Args)
		}
		switch id.Name {
		case "implies":
			return SVal{implies(c.trBool(x.Args[0]), c.trBool(x.Args[1])), tBool}
		case "unfolding":
			// unfolding(f(args), body): body, with the definition of the opaque f at args as a hypothesis when proving
			call, ok := x.Args[0].(*ast.CallExpr)
			if !ok {
				specFail("unfolding needs a call to an opaque define")
			}
			fid, ok := call.Fun.(*ast.Ident)
			if !ok {
				specFail("unfolding needs a call to an opaque define")
			}
			d := fv.eng.contracts.Defines[c.pkg.Path()+"::"+fid.Name]
			if d == nil || !d.Opaque {
				specFail("unfolding: %s is not an opaque define", fid.Name)
			}
			body := c.trBool(x.Args[1])
			if !c.asGoal {
				return SVal{body, tBool}
			}
			app := c.applyDefine(d, call.Args)
			def := c.expandDefine(d, c, call.Args)
			return SVal{implies(eq(app.t, def.t), body), tBool}
		case "iff":
			return SVal{eq(c.trBool(x.Args[0]), c.trBool(x.Args[1])), tBool}
		case "ite":
			cnd := c.trBool(x.Args[0])
			a, b := c.tr(x.Args[1]), c.tr(x.Args[2])
			if a.ty == nil {
				a = c.coerce(a, b.ty)
			}
			if b.ty == nil {
				b = c.coerce(b, a.ty)
			}
			return SVal{ite(cnd, a.t, b.t), a.ty}
		case "forall", "exists":
			return c.quant(id.Name, x.Args)
		case "forallT", "existsT":
			return c.quantT(id.Name, x.Args)
		case "old":
			if c.old == nil {
				specFail("old() not available here")
			}
			n := *c
			n.st = c.old
			n.inOld = true
			return n.tr(x.Args[0])
		case "len":
			v := c.tr(x.Args[0])
			if v.ty == nil {
				specFail("len(nil)")
			}
			switch tt := v.ty.Underlying().(type) {
			case *types.Slice:
				return SVal{sx("s-len", v.t), tInt}
			case *types.Map:
				return SVal{fv.mapLen(c.st, v.ty, v.t), tInt}
			case *types.Basic:
				if tt.Info()&types.IsString != 0 {
					return SVal{sx("str.len", v.t), tInt}
				}
			}
			specFail("len of %s", v.ty)
		case "cap":
			v := c.tr(x.Args[0])
			return SVal{sx("s-cap", v.t), tInt}
		case "base":
			v := c.tr(x.Args[0])
			return SVal{sx("s-base", v.t), tInt}
		case "off":
			v := c.tr(x.Args[0])
			return SVal{sx("s-off", v.t), tInt}
		case "has": // has(m, k): key present in map
			m := c.tr(x.Args[0])
			mt, ok := m.ty.Underlying().(*types.Map)
			if !ok {
				specFail("has() needs a map")
			}
			k := c.coerce(c.tr(x.Args[1]), mt.Key())
			return SVal{fv.mapHas(c.st, m.ty, m.t, k.t), tBool}
		case "fresh": // allocated during this call
			v := c.tr(x.Args[0])
			fb := c.freshBase
			if fb == "" {
				fb = fv.wm0
			}
			return SVal{sx(">=", c.refOf(v), fb), tBool}
		case "lastcalled":
			// the path went through a call of the named function (and no loop head since)
			fid, ok := x.Args[0].(*ast.Ident)
			if !ok {
				specFail("lastcalled needs a function name")
			}
			if rec := c.st.last[fid.Name]; rec != nil {
				return SVal{rec.valid, tBool}
			}
			return SVal{"false", tBool}
		case "lastresult", "lastarg", "atlast":
			// ghost record of the most recent call of a function on this path (see lastCall)
			fid, ok := x.Args[0].(*ast.Ident)
			if !ok {
				specFail("%s needs a function name", id.Name)
			}
			rec := c.st.last[fid.Name]
			switch id.Name {
			case "lastresult":
				if rec == nil || len(rec.res) != 1 {
					return SVal{"false", tBool} // no such call on this path
				}
				if _, isBool := rec.res[0].ty.Underlying().(*types.Basic); !isBool || rec.res[0].ty.Underlying().(*types.Basic).Kind() != types.Bool {
					specFail("lastresult(%s): not a bool function", fid.Name)
				}
				return SVal{and(rec.valid, rec.res[0].t), tBool}
			case "lastarg":
				lit, ok := x.Args[1].(*ast.BasicLit)
				if !ok {
					specFail("lastarg(F, i) needs a literal index")
				}
				i, _ := strconv.Atoi(lit.Value)
				if rec == nil || i >= len(rec.args) {
					fv.noRecord = fid.Name
					// type of the argument from the callee's signature is not at hand: an untyped nil keeps the clause well-formed
					return SVal{"nil", nil}
				}
				return rec.args[i]
			default:
				if rec == nil || rec.snap == nil {
					fv.noRecord = fid.Name
					return c.tr(x.Args[1])
				}
				n := *c
				n.st = rec.snap
				return n.tr(x.Args[1])
			}
		case "atloop": // value of the expression when the enclosing loop was entered
			if c.loopPre == nil {
				specFail("atloop() only inside loop invariants")
			}
			n := *c
			n.st = c.loopPre
			return n.tr(x.Args[0])
		case "athead": // value of the expression at the head of this iteration (step clauses)
			if c.loopHead == nil {
				specFail("athead() only inside loop step clauses")
			}
			n := *c
			n.st = c.loopHead
			return n.tr(x.Args[0])
		case "freshloop": // allocated since the enclosing loop was entered
			v := c.tr(x.Args[0])
			if c.loopBase == "" {
				specFail("freshloop() only inside loop invariants")
			}
			return SVal{sx(">=", c.refOf(v), c.loopBase), tBool}
		case "typed": // the object was allocated as the static type of the pointer (new(T) / &T{})
			v := c.tr(x.Args[0])
			if _, ok := v.ty.Underlying().(*types.Pointer); !ok {
				specFail("typed() needs a pointer")
			}
			return SVal{eq(sx("ref-ty", c.refOf(v)), intLit(int64(refTag(v.ty)))), tBool}
		case "allocated": // ref below the current watermark
			v := c.tr(x.Args[0])
			return SVal{sx("<", c.refOf(v), c.st.wm), tBool}
		case "is": // is(x, T): dynamic type of interface value x is exactly T
			v := c.tr(x.Args[0])
			t := c.resolveType(x.Args[1])
			return SVal{u.isType(v.t, t), tBool}
		case "isnil":
			v := c.tr(x.Args[0])
			return SVal{c.equal(v, SVal{"nil", nil}), tBool}
		case "min":
			a, b := c.tr(x.Args[0]), c.tr(x.Args[1])
			return SVal{ite(sx("<=", a.t, b.t), a.t, b.t), a.ty}
		case "max":
			a, b := c.tr(x.Args[0]), c.tr(x.Args[1])
			return SVal{ite(sx(">=", a.t, b.t), a.t, b.t), a.ty}
		case "done":
			if c.done == nil {
				specFail("done() only inside fold invariants")
			}
			return SVal{c.done(c.tr(x.Args[0]).t), tBool}
		case "item":
			if c.item == nil {
				specFail("item() only inside fold invariants")
			}
			return c.item(c, c.tr(x.Args[0]).t)
		case "seen":
			if c.seen == nil {
				specFail("seen() only inside map-range loop invariants")
			}
			return SVal{c.seen(c.tr(x.Args[0])), tBool}
		case "contains":
			a, b := c.tr(x.Args[0]), c.tr(x.Args[1])
			return SVal{sx("str.contains", a.t, b.t), tBool}
		case "hasprefix":
			a, b := c.tr(x.Args[0]), c.tr(x.Args[1])
			return SVal{sx("str.prefixof", b.t, a.t), tBool}
		case "indexof":
			a, b := c.tr(x.Args[0]), c.tr(x.Args[1])
			return SVal{sx("str.indexof", a.t, b.t, "0"), tInt}
		case "itoa":
			a := c.tr(x.Args[0])
			return SVal{sx("str-itoa", a.t), tString}
		case "sprintf": // sprintf(format, a, b...): the same uninterpreted function as the model of fmt.Sprintf
			n := len(x.Args) - 1
			name := fmt.Sprintf("fmt-sprintf!%d", n)
			sorts := []string{"String"}
			terms := []string{c.tr(x.Args[0]).t}
			for _, a := range x.Args[1:] {
				v := c.tr(a)
				sorts = append(sorts, "Any")
				if v.ty == nil {
					terms = append(terms, "any-nil")
				} else {
					terms = append(terms, u.box(v.t, v.ty))
				}
			}
			fv.eng.declareGhost(name, sorts, "String")
			return SVal{sx(name, terms...), tString}
		case "box": // box(x): the interface value holding x
			a := c.tr(x.Args[0])
			return SVal{u.box(a.t, a.ty), types.NewInterfaceType(nil, nil)}
		case "sameslice":
			a, b := c.tr(x.Args[0]), c.tr(x.Args[1])
			return SVal{eq(a.t, b.t), tBool}
		case "errmsg":
			a := c.tr(x.Args[0])
			return SVal{sx("err-msg", a.t), tString}
		}
		// defines
		if d := fv.eng.contracts.Defines[c.pkg.Path()+"::"+id.Name]; d != nil {
			return c.applyDefine(d, x.Args)
		}
		// ghost functions declared in the contract file
		if o, ok := c.lookupPkgObj(id.Name).(*types.Func); ok {
			return c.ghostCall(o, x.Args)
		}
		// conversion T(x)
		if tn, ok := c.lookupPkgObj(id.Name).(*types.TypeName); ok {
			v := c.tr(x.Args[0])
			return c.convert(v, tn.Type())
		}
		specFail("unknown function %s", id.Name)
	}
	if sel, ok := x.Fun.(*ast.SelectorExpr); ok {
		if id, ok := sel.X.(*ast.Ident); ok {
			if pn, ok := c.lookupPkgObj(id.Name).(*types.PkgName); ok {
				if _, isVar := c.vars[id.Name]; !isVar {
					path := pn.Imported().Path()
					if d := fv.eng.contracts.Defines[path+"::"+sel.Sel.Name]; d != nil {
						n := *c
						n.pkg = pn.Imported()
						n.scope = fv.eng.contractScope[path]
						return n.applyDefineArgs(d, c, x.Args)
					}
					o := pn.Imported().Scope().Lookup(sel.Sel.Name)
					switch oo := o.(type) {
					case *types.Func:
						return c.ghostCall(oo, x.Args)
					case *types.TypeName:
						return c.convert(c.tr(x.Args[0]), oo.Type())
					}
				}
			}
		}
	}
	specFail("unsupported call %s", exprString(x))
	return SVal{}
}

func (c *SpecCtx) convert(v SVal, t types.Type) SVal {
	if _, isIface := t.Underlying().(*types.Interface); isIface {
		return c.coerce(v, t)
	}
	return SVal{v.t, t}
}

func (c *SpecCtx) refOf(v SVal) string {
	if v.ty == nil {
		return "0"
	}
	switch v.ty.Underlying().(type) {
	case *types.Slice:
		return sx("s-base", v.t)
	case *types.Interface:
		return ite(sx("(_ is any-ref)", v.t), sx("a-ref", v.t), ite(sx("(_ is any-slice)", v.t), sx("s-base", sx("a-slice", v.t)), "0"))
	}
	return v.t
}

func (c *SpecCtx) applyDefine(d *Define, args []ast.Expr) SVal {
	return c.applyDefineArgs(d, c, args)
}

// applyDefineArgs evaluates args in argCtx and the body in c (the define's package).
func (c *SpecCtx) applyDefineArgs(d *Define, argCtx *SpecCtx, args []ast.Expr) SVal {
	if len(args) != len(d.Params) {
		specFail("define %s: want %d args", d.Name, len(d.Params))
	}
	if d.Opaque {
		fv := c.fv
		name := "spec_" + strings.ReplaceAll(shortPkg(d.Pkg), "/", "_") + "_" + d.Name
		var sorts, terms []string
		for i, a := range args {
			t := c.resolveTypeString(d.PTypes[i])
			sorts = append(sorts, fv.u.sortOf(t))
			terms = append(terms, argCtx.coerce(argCtx.tr(a), t).t)
		}
		rt := c.resolveTypeString(d.RType)
		fv.eng.declareGhost(name, sorts, fv.u.sortOf(rt))
		if fv.u.sortOf(rt) == "Int" {
			fv.eng.intFuncs[name] = true
		}
		return SVal{sx(name, terms...), rt}
	}
	return c.expandDefine(d, argCtx, args)
}

func (c *SpecCtx) expandDefine(d *Define, argCtx *SpecCtx, args []ast.Expr) SVal {
	vars := map[string]SVal{}
	for i, a := range args {
		v := argCtx.tr(a)
		if v.ty == nil {
			t := c.resolveTypeString(d.PTypes[i])
			v = c.coerce(v, t)
		}
		vars[d.Params[i]] = v
	}
	n := *c
	n.vars = vars
	n.done = argCtx.done
	n.seen = argCtx.seen
	n.st = argCtx.st
	n.old = argCtx.old
	return n.tr(d.Body)
}

func (c *SpecCtx) resolveTypeString(s string) types.Type {
	eng := c.fv.eng
	tv, err := types.Eval(eng.fset, c.pkg, eng.contractPos[c.pkg.Path()], s)
	if err == nil && tv.IsType() {
		return tv.Type
	}
	// own resolver: allows unexported names of other packages (pkg.name)
	if t := c.parseType(strings.TrimSpace(s)); t != nil {
		return t
	}
	specFail("cannot resolve type %q: %v", s, err)
	return nil
}

func (c *SpecCtx) parseType(s string) types.Type {
	switch {
	case strings.HasPrefix(s, "*"):
		if t := c.parseType(s[1:]); t != nil {
			return types.NewPointer(t)
		}
		return nil
	case strings.HasPrefix(s, "[]"):
		if t := c.parseType(s[2:]); t != nil {
			return types.NewSlice(t)
		}
		return nil
	case strings.HasPrefix(s, "map["):
		d := 0
		for i := 3; i < len(s); i++ {
			if s[i] == '[' {
				d++
			} else if s[i] == ']' {
				d--
				if d == 0 {
					k, v := c.parseType(s[4:i]), c.parseType(s[i+1:])
					if k == nil || v == nil {
						return nil
					}
					return types.NewMap(k, v)
				}
			}
		}
		return nil
	case s == "interface{}" || s == "any":
		return types.NewInterfaceType(nil, nil)
	}
	if i := strings.LastIndex(s, "."); i >= 0 {
		pn, name := s[:i], s[i+1:]
		// by import name in the contract file's scope, or by package name among loaded packages
		if o, ok := c.lookupPkgObj(pn).(*types.PkgName); ok {
			if tn, ok := o.Imported().Scope().Lookup(name).(*types.TypeName); ok {
				return tn.Type()
			}
		}
		for path, p := range c.fv.eng.pkgByPath {
			if p.Types != nil && (p.Types.Name() == pn || path == pn) {
				if tn, ok := p.Types.Scope().Lookup(name).(*types.TypeName); ok {
					return tn.Type()
				}
			}
		}
		return nil
	}
	if tn, ok := c.lookupPkgObj(s).(*types.TypeName); ok {
		return tn.Type()
	}
	return nil
}

// ghostCall: an uninterpreted function over the sorts of the Go signature.
func (c *SpecCtx) ghostCall(o *types.Func, args []ast.Expr) SVal {
	fv := c.fv
	sig := o.Type().(*types.Signature)
	if sig.Results().Len() != 1 {
		specFail("ghost function %s must have one result", o.Name())
	}
	name := "ghost_" + shortPkg(o.Pkg().Path()) + "_" + o.Name()
	name = strings.ReplaceAll(name, "/", "_")
	var sorts, terms []string
	for i := 0; i < sig.Params().Len(); i++ {
		pt := sig.Params().At(i).Type()
		sorts = append(sorts, fv.u.sortOf(pt))
		v := c.coerce(c.tr(args[i]), pt)
		terms = append(terms, v.t)
	}
	rt := sig.Results().At(0).Type()
	fv.eng.declareGhost(name, sorts, fv.u.sortOf(rt))
	if len(terms) == 0 {
		return SVal{name, rt}
	}
	return SVal{sx(name, terms...), rt}
}
