package main

import (
	"encoding/json"
	"fmt"
	"os"
	"os/exec"
	"path/filepath"
	"sort"
	"strconv"
	"strings"

	"golang.org/x/tools/go/ssa"
)

type fres struct {
	c  *Contract
	fn *ssa.Function
	fv *FV
}

type oblReport struct {
	Name    string   `json:"obligation"`
	Kind    string   `json:"kind"`
	Props   []string `json:"props,omitempty"`
	Status  string   `json:"status"`
	Solver  string   `json:"solver,omitempty"`
	Seconds float64  `json:"seconds"`
	Pos     string   `json:"pos,omitempty"`
	Clause  string   `json:"clause,omitempty"`
	Class   string   `json:"class"` // proved | known-finding | undecided-not-claimed | VIOLATION | cover-ok | cover-unreachable
}

// oblProps: the properties an obligation serves.
func oblServes(o *Obligation, prop string) bool {
	return hasProp(o.Props, prop)
}

var partialRun bool

func report(eng *Engine, prop, tier string, seed int, verif string, results []*fres, missing, specErrs []string,
	lock LockFile, known []KnownFinding, pf *Portfolio, wall, loadS, genS, solveS float64, evidenceOut string, showAll bool, prelude string) int {

	knownOpen := map[string]KnownFinding{}
	for _, k := range known {
		if k.Status != "fixed" && k.Property == prop {
			knownOpen[k.Obligation] = k
		}
	}
	var reps []oblReport
	var funcs []funcReport
	var violations []string
	nObl, nDis := 0, 0
	nKnown, nUndecided, nCover, nCoverBad := 0, 0, 0, 0
	unreachSeen := map[string]int{}
	assumptions := map[string]bool{}
	var samples []map[string]string
	seenKnown := map[string]bool{}
	replayDir := filepath.Join(verif, "replays")
	trusted := map[string]string{}
	for _, r := range results {
		if r.c.Trusted != "" {
			if hasProp(r.c.Props, prop) {
				trusted[shortPkg(r.c.Pkg)+"."+r.c.FuncName] = r.c.Trusted
			}
			continue
		}
		fr := funcReport{Name: shortPkg(r.c.Pkg) + "." + r.c.FuncName, Unsupported: r.fv.unsupported, Unmodelled: sortedKeys(r.fv.unmodelled)}
		if r.fn != nil {
			fr.Pos = r.fv.posString(r.fn.Pos())
		}
		relevant := false
		for _, o := range r.fv.obls {
			if !oblServes(o, prop) {
				continue
			}
			relevant = true
			st := "none"
			solver := ""
			secs := 0.0
			if o.Result != nil {
				st, solver, secs = o.Result.Status, o.Result.Solver, o.Result.Seconds
			}
			or_ := oblReport{Name: o.Name, Kind: o.Kind, Props: o.Props, Status: st, Solver: solver, Seconds: secs, Pos: o.Pos, Clause: o.Text}
			if o.Kind == "cover" {
				nCover++
				if st == "unsat" {
					or_.Class = "cover-unreachable"
					nCoverBad++
					if strings.HasSuffix(o.Name, "#cover{entry}") {
						// contradictory preconditions: everything below would be vacuous
						violations = append(violations, fmt.Sprintf("%s (preconditions unsatisfiable: vacuous contract)", o.Name))
					} else {
						// a block or return that cannot be reached under the contracts in force: unless it is one of
						// the points recorded as unreachable on the unchanged tree, the obligations behind it are
						// proved vacuously (an assumed clause is contradictory there)
						k := coverKey(o.Name)
						unreachSeen[k]++
						if unreachSeen[k] > lock.Unreachable[k] {
							or_.Class = "VIOLATION"
							path := filepath.Join(replayDir, prop+"-"+safeFile(o.Name)+".txt")
							os.MkdirAll(replayDir, 0o755)
							os.WriteFile(path, []byte("vacuity: "+o.Name+" - this point of the function cannot be reached under the contracts in force (it can on the unchanged tree): an assumed clause is contradictory there and every obligation behind it is proved vacuously\n"), 0o644)
							fmt.Printf("VIOLATION property=%s replay=%s obligation=%s status=unreachable no-failing-input-found\n", prop, path, o.Name)
							violations = append(violations, o.Name+" [unreachable: vacuous proofs]")
						}
					}
				} else {
					or_.Class = "cover-ok"
				}
				reps = append(reps, or_)
				continue
			}
			fr.Obligations++
			switch {
			case st == "unsat":
				or_.Class = "proved"
				fr.Discharged++
				nObl++
				nDis++
				if len(samples) < 3 {
					samples = append(samples, map[string]string{"obligation": o.Name, "goal": trunc(o.Goal, 400), "guard": trunc(o.Guard, 200), "solver": solver})
				}
			default:
				if kf, ok := knownOpen[o.Name]; ok {
					or_.Class = "known-finding"
					nKnown++
					if !seenKnown[o.Name] {
						seenKnown[o.Name] = true
						fmt.Printf("KNOWN-FINDING: property=%s %s %s\n", prop, o.Name, kf.What)
					}
				} else if why, ok := lock.Undecided[o.Name]; ok {
					or_.Class = "undecided-not-claimed"
					_ = why
					nUndecided++
				} else {
					or_.Class = "VIOLATION"
					nObl++
					path := writeReplay(replayDir, prop, o, r, prelude, eng)
					if tf, failed := tryReplay(verif, eng.repoDir, o, strings.TrimSuffix(path, ".txt")); tf != "" {
						if failed {
							replayOK[path] = true
							f, _ := os.OpenFile(path, os.O_APPEND|os.O_WRONLY, 0o644)
							if f != nil {
								fmt.Fprintf(f, "\nREPLAYED ON THE REAL CODE: the counter-model input FAILS (%s; output in %s)\n", tf, strings.TrimSuffix(path, ".txt")+"_replay_output.txt")
								f.Close()
							}
						}
					}
					// no counter-model replay: if this function had a defect before (fixed entry of the known
					// findings) the recorded failing input of that defect is run against the real code
					witnessed := false
					if !replayOK[path] {
						for _, kf := range known {
							if kf.Status != "fixed" || kf.Property != prop || kf.Witness == "" || funcOfObligation(kf.Obligation) != funcOfObligation(o.Name) {
								continue
							}
							if out, failed := replayWitness(verif, eng.repoDir, kf.Witness); failed {
								witnessed = true
								if f, _ := os.OpenFile(path, os.O_APPEND|os.O_WRONLY, 0o644); f != nil {
									fmt.Fprintf(f, "\nREPLAYED ON THE REAL CODE: the recorded failing input of the earlier defect in this function (%s) FAILS again:\n%s\n", kf.Witness, out)
									f.Close()
								}
								break
							}
						}
					}
					suffix := ""
					if !witnessed && (o.Result == nil || o.Result.Status != "sat" || !replayConfirmed(path)) {
						suffix = " no-failing-input-found"
					}
					violations = append(violations, fmt.Sprintf("%s [%s]", o.Name, st))
					fmt.Printf("VIOLATION property=%s replay=%s obligation=%s status=%s%s\n", prop, path, o.Name, st, suffix)
				}
			}
			reps = append(reps, or_)
		}
		if relevant {
			funcs = append(funcs, fr)
			for k := range r.fv.assumptionsUsed {
				assumptions[k] = true
			}
			for k := range r.fv.unmodelled {
				assumptions["unmodelled: "+k] = true
			}
			for _, k := range r.fv.unsupported {
				assumptions["dropped by the extraction in "+fr.Name+": "+k] = true
			}
			for _, a := range r.c.Assumes {
				assumptions["assumes in "+fr.Name+": "+a.Text] = true
			}
			if r.c.ModAssumed {
				assumptions["modifies clause of "+fr.Name+" assumed, not checked against its body"] = true
			}
			for _, a := range r.c.AssumedPost {
				assumptions["assumed postcondition (boundary) of "+fr.Name+": "+a.Text] = true
			}
		}
	}
	for n, why := range trusted {
		assumptions["trusted contract (body not verified): "+n+" — "+why] = true
	}
	for _, m := range missing {
		path := filepath.Join(replayDir, prop+"-missing-"+safeFile(m)+".txt")
		os.MkdirAll(replayDir, 0o755)
		os.WriteFile(path, []byte("function under contract not found in the tree: "+m+"\n"), 0o644)
		fmt.Printf("VIOLATION property=%s replay=%s obligation=%s#exists status=missing no-failing-input-found\n", prop, path, m)
		violations = append(violations, m+" missing")
	}
	for _, e := range specErrs {
		path := filepath.Join(replayDir, prop+"-contract-error.txt")
		os.MkdirAll(replayDir, 0o755)
		os.WriteFile(path, []byte(strings.Join(specErrs, "\n")+"\n"), 0o644)
		fmt.Printf("VIOLATION property=%s replay=%s obligation=contract-error status=error no-failing-input-found (%s)\n", prop, path, trunc(e, 200))
		violations = append(violations, "contract error: "+e)
		break
	}
	// axioms
	for _, c := range eng.contracts.Funcs {
		if c.Extern {
			var cl []string
			for _, e := range c.Ensures {
				cl = append(cl, e.Text)
			}
			assumptions["assumed library contract "+c.Pkg+"."+c.FuncName+": "+strings.Join(cl, "; ")] = true
		}
	}
	for _, a := range eng.contracts.Axioms {
		if !a.Lemma {
			assumptions["axiom "+a.Name+": "+a.Text] = true
		}
	}
	for _, s := range fixedAssumptions {
		assumptions[s] = true
	}

	if nObl == 0 && len(violations) == 0 {
		fmt.Printf("VIOLATION property=%s replay=%s obligation=none status=vacuous no-failing-input-found (no obligations generated)\n", prop, filepath.Join(replayDir, prop+"-vacuous.txt"))
		os.MkdirAll(replayDir, 0o755)
		os.WriteFile(filepath.Join(replayDir, prop+"-vacuous.txt"), []byte("no obligations were generated for this property\n"), 0o644)
		violations = append(violations, "no obligations")
	}

	level := "proof"
	ev := map[string]interface{}{
		"property_id": prop,
		"tier":        tier,
		"seed":        seed,
		"level":       level,
		"wall_s":      wall,
		"violations":  len(violations),
	}
	var trustedBase []string
	for k := range assumptions {
		trustedBase = append(trustedBase, k)
	}
	sort.Strings(trustedBase)
	perSolver := map[string]interface{}{}
	for k, v := range pf.perSolver {
		perSolver[k] = map[string]interface{}{"seconds": v, "queries": pf.nQueries[k]}
	}
	cov := map[string]interface{}{
		"obligations":              nObl,
		"discharged":               nDis,
		"checker_cmd":              fmt.Sprintf("gocv check --repo %s --prop %s --tier %s  (VCs from go/ssa NaiveForm of the working tree; z3-new 5.1.0 first, then z3 4.8.12 / cvc5 1.0.3 raced)", eng.repoDir, prop, tier),
		"trusted_base":             trustedBase,
		"functions_under_contract": funcs,
		"obligation_results":       reps,
		"known_findings_reported":  nKnown,
		"undecided_not_claimed":    nUndecided,
		"cover_checks":             nCover,
		"cover_unreachable":        nCoverBad,
		"solver_time":              perSolver,
		"solver_wins":              pf.wins,
		"phase_seconds":            map[string]float64{"load": loadS, "vcgen": genS, "solve": solveS},
		"samples":                  samples,
		"violation_list":           violations,
		"integers":                 "mathematical Int (no overflow obligations); see assumptions",
	}
	if prop == "C13" && eng.commuteVerdicts != nil {
		cov["map_range_loops"] = eng.commuteVerdicts
	}
	if nObl == 0 {
		cov["obligations"] = 0
		ev["level"] = "other"
		cov["explanation"] = "no obligation claimed on this run"
		cov["evaluations"] = 1
		cov["distinct_nontrivial"] = 2
	}
	ev["coverage"] = cov
	ev["assumptions"] = trustedBase
	out := evidenceOut
	if out == "" {
		out = filepath.Join(verif, "evidence", prop+".json")
	}
	// a run restricted to some functions (--func, a debugging aid) must not replace the evidence of a full run
	if evidenceOut != "" || !partialRun {
		os.MkdirAll(filepath.Dir(out), 0o755)
		b, _ := json.MarshalIndent(ev, "", " ")
		os.WriteFile(out, append(b, '\n'), 0o644)
	}

	if showAll {
		for _, r := range reps {
			fmt.Printf("  %-22s %-8s %-7s %6.2fs %s\n", r.Class, r.Status, r.Solver, r.Seconds, r.Name)
		}
	}
	fmt.Printf("property %s: %d functions under contract, %d obligations claimed, %d discharged, %d known findings, %d undecided (not claimed), %d violations; load %.1fs vcgen %.1fs solve %.1fs\n",
		prop, len(funcs), nObl, nDis, nKnown, nUndecided, len(violations), loadS, genS, solveS)
	if len(violations) > 0 {
		return 1
	}
	return 0
}

var fixedAssumptions = []string{
	"go/ssa (x/tools v0.29.0) semantics and this generator's translation of it",
	"solvers z3 5.1.0, z3 4.8.12, cvc5 1.0.3 are sound",
	"machine integers treated as mathematical integers (no overflow obligations)",
	"termination is not verified (a proved function may still loop forever)",
	"floating point values are opaque",
	"external library functions without a model are assumed not to modify memory reachable by the caller except through pointer arguments",
}

func trunc(s string, n int) string {
	if len(s) > n {
		return s[:n] + "…"
	}
	return s
}

var replayOK = map[string]bool{}

func replayConfirmed(path string) bool { return replayOK[path] }

// tryReplay instantiates the replay template of the obligation's function (if any) with the
// parameter values of the solver's counter-model, runs it against the real code through
// `go test -overlay`, and reports whether the real code fails on that input.
func tryReplay(verif, repo string, o *Obligation, base string) (string, bool) {
	if o.Result == nil || o.Result.Status != "sat" || o.Result.Model == "" {
		return "", false
	}
	tmplPath := filepath.Join(verif, "replay", "templates", safeFile(o.Func)+".go.tmpl")
	tb, err := os.ReadFile(tmplPath)
	if err != nil {
		// templates live next to the binary's verif directory (bin/gocv -> ../replay/templates)
		if exe, e2 := os.Executable(); e2 == nil {
			tb, err = os.ReadFile(filepath.Join(filepath.Dir(filepath.Dir(exe)), "replay", "templates", safeFile(o.Func)+".go.tmpl"))
		}
	}
	if err != nil {
		return "", false
	}
	vals := modelValues(o.Result.Model)
	src := string(tb)
	for {
		i := strings.Index(src, "{{")
		if i < 0 {
			break
		}
		j := strings.Index(src[i:], "}}")
		if j < 0 {
			return "", false
		}
		ph := src[i+2 : i+j]
		name, kind := ph, "string"
		if k := strings.Index(ph, ":"); k >= 0 {
			name, kind = ph[:k], ph[k+1:]
		}
		v, ok := vals[name]
		if !ok {
			return "", false
		}
		lit := v
		if kind == "string" {
			lit = strconv.Quote(smtStringValue(v))
		}
		src = src[:i] + lit + src[i+j+2:]
	}
	// package directory from the template's marker comment
	dir := "."
	if k := strings.Index(src, "package dir: "); k >= 0 {
		rest := src[k+len("package dir: "):]
		end := strings.IndexAny(rest, ")\n ")
		if end > 0 {
			dir = rest[:end]
		}
	}
	testFile := base + "_replay_test.go"
	os.WriteFile(testFile, []byte(src), 0o644)
	ov := base + "_overlay.json"
	target := filepath.Join(repo, dir, "zz_verif_replay_test.go")
	os.WriteFile(ov, []byte(fmt.Sprintf("{\"Replace\":{%q:%q}}", target, testFile)), 0o644)
	cmd := exec.Command("go", "test", "-overlay", ov, "-vet=off", "-count=1", "-timeout", "60s", "-run", "TestVerifReplay", "./"+dir)
	cmd.Dir = repo
	cmd.Env = append(os.Environ(), "GOFLAGS=-mod=mod", "GOPROXY=off", "GOSUMDB=off", "GOTOOLCHAIN=local")
	out, rerr := cmd.CombinedOutput()
	os.WriteFile(base+"_replay_output.txt", out, 0o644)
	failed := rerr != nil && (strings.Contains(string(out), "--- FAIL") || strings.Contains(string(out), "panic:"))
	return testFile, failed
}

// modelValues extracts the values of constants from a (get-model) answer.
func modelValues(m string) map[string]string {
	out := map[string]string{}
	lines := strings.Split(m, "\n")
	for i := 0; i < len(lines); i++ {
		t := strings.TrimSpace(lines[i])
		if !strings.HasPrefix(t, "(define-fun ") {
			continue
		}
		f := strings.Fields(t)
		if len(f) < 4 || f[2] != "()" {
			continue
		}
		name := f[1]
		// value is the rest of this line after the sort, or the next line
		rest := ""
		if idx := strings.Index(t, f[3]); idx >= 0 {
			rest = strings.TrimSpace(t[idx+len(f[3]):])
		}
		if rest == "" && i+1 < len(lines) {
			rest = strings.TrimSpace(lines[i+1])
		}
		rest = strings.TrimSuffix(rest, ")")
		out[name] = strings.TrimSpace(rest)
	}
	return out
}

// smtStringValue decodes an SMT-LIB string literal.
func smtStringValue(lit string) string {
	lit = strings.TrimSpace(lit)
	if len(lit) >= 2 && lit[0] == '"' {
		lit = lit[1 : len(lit)-1]
	}
	lit = strings.ReplaceAll(lit, "\"\"", "\"")
	var b strings.Builder
	for i := 0; i < len(lit); i++ {
		if strings.HasPrefix(lit[i:], "\\u{") {
			if j := strings.Index(lit[i:], "}"); j > 0 {
				if n, err := strconv.ParseInt(lit[i+3:i+j], 16, 32); err == nil {
					b.WriteRune(rune(n))
					i += j
					continue
				}
			}
		}
		b.WriteByte(lit[i])
	}
	return b.String()
}

// writeReplay stores what is needed to re-examine a failed obligation.
func writeReplay(dir, prop string, o *Obligation, r *fres, prelude string, eng *Engine) string {
	os.MkdirAll(dir, 0o755)
	base := filepath.Join(dir, prop+"-"+safeFile(o.Name))
	if r.fn != nil {
		q := buildQuery(prelude, r.fv, o) + "(check-sat)\n(get-model)\n"
		os.WriteFile(base+".smt2", []byte(q), 0o644)
	}
	var b strings.Builder
	fpos := ""
	if r.fn != nil {
		fpos = r.fv.posString(r.fn.Pos())
	}
	fmt.Fprintf(&b, "failed obligation: %s\nproperty: %s\nfunction: %s (%s)\nkind: %s\nsource position: %s\n", o.Name, prop, o.Func, fpos, o.Kind, o.Pos)
	if o.Text != "" {
		fmt.Fprintf(&b, "clause: %s\n", o.Text)
	}
	if o.Result != nil {
		fmt.Fprintf(&b, "solver verdict: %s (%s, %.2fs)\nattempts: %s\n", o.Result.Status, o.Result.Solver, o.Result.Seconds, strings.Join(o.Result.Tried, " "))
		if o.Result.Detail != "" {
			fmt.Fprintf(&b, "detail: %s\n", o.Result.Detail)
		}
		if o.Result.Model != "" {
			fmt.Fprintf(&b, "\ncounter-model (inputs of the function are the p_* constants):\n%s\n", filterModel(o.Result.Model))
		}
	}
	fmt.Fprintf(&b, "\nSMT query: %s.smt2 (re-run: z3-new %s.smt2)\n", base, base)
	os.WriteFile(base+".txt", []byte(b.String()), 0o644)
	return base + ".txt"
}

// filterModel keeps the definitions of parameter constants and a few others.
func filterModel(m string) string {
	lines := strings.Split(m, "\n")
	var out []string
	keep := false
	for _, l := range lines {
		t := strings.TrimSpace(l)
		if strings.HasPrefix(t, "(define-fun ") {
			name := strings.Fields(t)[1]
			keep = strings.HasPrefix(name, "p_") || strings.HasPrefix(name, "fv_") || strings.HasPrefix(name, "wm!0")
		}
		if keep {
			out = append(out, l)
		}
	}
	if len(out) == 0 {
		return trunc(m, 4000)
	}
	return trunc(strings.Join(out, "\n"), 8000)
}

func funcOfObligation(name string) string {
	if i := strings.Index(name, "#"); i >= 0 {
		return name[:i]
	}
	return name
}

// replayWitness runs a recorded reproducer (replay/findings/*_test.go, optionally followed by a
// test name) as an in-package test of the repository through go test -overlay.
func replayWitness(verif, repo, witness string) (string, bool) {
	f := strings.FieldsFunc(witness, func(r rune) bool { return r == ' ' || r == ';' || r == '(' })
	if len(f) == 0 || !strings.HasSuffix(f[0], "_test.go") {
		return "", false
	}
	file := filepath.Join(verif, f[0])
	src, err := os.ReadFile(file)
	if err != nil {
		return "", false
	}
	run := "TestReplay"
	if len(f) > 1 && strings.HasPrefix(f[1], "Test") {
		run = f[1]
	}
	dir := "."
	for _, l := range strings.Split(string(src), "\n") {
		if strings.HasPrefix(l, "package ") {
			if p := strings.TrimSpace(strings.TrimPrefix(l, "package ")); p != "pebbles" {
				dir = p
			}
			break
		}
	}
	tmp, err := os.MkdirTemp("", "gocv-witness")
	if err != nil {
		return "", false
	}
	defer os.RemoveAll(tmp)
	ov := filepath.Join(tmp, "ov.json")
	target := filepath.Join(repo, dir, "zz_verif_replay_test.go")
	os.WriteFile(ov, []byte(fmt.Sprintf("{\"Replace\":{%q:%q}}", target, file)), 0o644)
	cmd := exec.Command("go", "test", "-overlay", ov, "-vet=off", "-count=1", "-timeout", "60s", "-run", run, "./"+dir)
	cmd.Dir = repo
	cmd.Env = append(os.Environ(), "GOFLAGS=-mod=mod", "GOPROXY=off", "GOSUMDB=off", "GOTOOLCHAIN=local")
	out, rerr := cmd.CombinedOutput()
	failed := rerr != nil && (strings.Contains(string(out), "--- FAIL") || strings.Contains(string(out), "panic:"))
	o := string(out)
	if len(o) > 3000 {
		o = o[:3000]
	}
	return o, failed
}
