package main

// Goal-directed instantiation. Solvers find the instances of quantified
// hypotheses by heuristics that proved chaotic on our VCs (a proof would flip
// between 0.5 s and a timeout when an unrelated assertion was added). The
// generator therefore (1) skolemises the leading universal quantifiers of the
// goal and (2) adds, as extra ground assertions, the instances of every
// positively occurring universally quantified hypothesis at the goal's skolem
// constants and at the opaque spec-function applications that these instances
// produce (two rounds). Instances are consequences of the hypotheses, so this
// never changes satisfiability; the quantified originals stay in the query.

import (
	"fmt"
	"os"
	"sort"
	"strings"
)

type sexp struct {
	atom string
	list []*sexp
}

func (s *sexp) isAtom() bool { return s.list == nil && s.atom != "" || (s.list == nil) }

func parseSexp(src string) (*sexp, bool) {
	pos := 0
	var parse func() (*sexp, bool)
	skip := func() {
		for pos < len(src) && (src[pos] == ' ' || src[pos] == '\n' || src[pos] == '\t') {
			pos++
		}
	}
	parse = func() (*sexp, bool) {
		skip()
		if pos >= len(src) {
			return nil, false
		}
		if src[pos] == '(' {
			pos++
			n := &sexp{list: []*sexp{}}
			for {
				skip()
				if pos >= len(src) {
					return nil, false
				}
				if src[pos] == ')' {
					pos++
					return n, true
				}
				c, ok := parse()
				if !ok {
					return nil, false
				}
				n.list = append(n.list, c)
			}
		}
		start := pos
		if src[pos] == '"' {
			pos++
			for pos < len(src) {
				if src[pos] == '"' {
					if pos+1 < len(src) && src[pos+1] == '"' {
						pos += 2
						continue
					}
					pos++
					break
				}
				pos++
			}
			return &sexp{atom: src[start:pos]}, true
		}
		if src[pos] == '|' {
			pos++
			for pos < len(src) && src[pos] != '|' {
				pos++
			}
			pos++
			return &sexp{atom: src[start:pos]}, true
		}
		for pos < len(src) && src[pos] != ' ' && src[pos] != '(' && src[pos] != ')' && src[pos] != '\n' && src[pos] != '\t' {
			pos++
		}
		return &sexp{atom: src[start:pos]}, true
	}
	s, ok := parse()
	if !ok {
		return nil, false
	}
	skip()
	if pos != len(src) {
		return nil, false
	}
	return s, true
}

func (s *sexp) String() string {
	var b strings.Builder
	s.write(&b)
	return b.String()
}

func (s *sexp) write(b *strings.Builder) {
	if s.list == nil {
		b.WriteString(s.atom)
		return
	}
	b.WriteByte('(')
	for i, c := range s.list {
		if i > 0 {
			b.WriteByte(' ')
		}
		c.write(b)
	}
	b.WriteByte(')')
}

func (s *sexp) head() string {
	if s.list != nil && len(s.list) > 0 && s.list[0].list == nil {
		return s.list[0].atom
	}
	return ""
}

func (s *sexp) subst(m map[string]*sexp) *sexp {
	if s.list == nil {
		if r, ok := m[s.atom]; ok {
			return r
		}
		return s
	}
	// respect shadowing by inner binders
	h := s.head()
	if (h == "forall" || h == "exists" || h == "let") && len(s.list) == 3 {
		shadow := false
		for _, b := range s.list[1].list {
			if b.list != nil && len(b.list) > 0 {
				if _, ok := m[b.list[0].atom]; ok {
					shadow = true
				}
			}
		}
		if shadow {
			m2 := map[string]*sexp{}
			for k, v := range m {
				m2[k] = v
			}
			for _, b := range s.list[1].list {
				if b.list != nil && len(b.list) > 0 {
					delete(m2, b.list[0].atom)
				}
			}
			if h == "let" {
				// binding values are evaluated in the outer scope
				nb := &sexp{list: []*sexp{}}
				for _, b := range s.list[1].list {
					nb.list = append(nb.list, &sexp{list: []*sexp{b.list[0], b.list[1].subst(m)}})
				}
				return &sexp{list: []*sexp{s.list[0], nb, s.list[2].subst(m2)}}
			}
			return &sexp{list: []*sexp{s.list[0], s.list[1], s.list[2].subst(m2)}}
		}
	}
	n := &sexp{list: make([]*sexp, len(s.list))}
	for i, c := range s.list {
		n.list[i] = c.subst(m)
	}
	return n
}

// skolemise strips leading universal quantifiers (through consequents of =>)
// of a goal that is to be refuted, returning the new goal and the constants.
func skolemise(goal *sexp, counter *int) (*sexp, [][2]string) {
	var consts [][2]string
	var walk func(g *sexp) *sexp
	walk = func(g *sexp) *sexp {
		switch g.head() {
		case "=>":
			if len(g.list) == 3 {
				return &sexp{list: []*sexp{g.list[0], g.list[1], walk(g.list[2])}}
			}
		case "forall":
			if len(g.list) == 3 {
				m := map[string]*sexp{}
				for _, b := range g.list[1].list {
					*counter++
					name := fmt.Sprintf("sk!%s!%d", strings.ReplaceAll(b.list[0].atom, "!", "_"), *counter)
					consts = append(consts, [2]string{name, b.list[1].String()})
					m[b.list[0].atom] = &sexp{atom: name}
				}
				return walk(g.list[2].subst(m))
			}
		case "!":
			if len(g.list) >= 2 {
				return walk(g.list[1])
			}
		case "and", "or":
			// a universal in a conjunct/disjunct of the goal is still in positive position and under no
			// other binder (the enclosing universals are constants by now): a fresh constant refutes it
			n := &sexp{list: []*sexp{g.list[0]}}
			for _, c := range g.list[1:] {
				n.list = append(n.list, walk(c))
			}
			return n
		}
		return g
	}
	return walk(goal), consts
}

// instances returns the formulas obtained from f by replacing positively
// occurring universal quantifiers over Int by instances at the given terms.
// The returned formulas are consequences of f.
func instances(f *sexp, terms []*sexp, limit *int) []*sexp {
	return instancesSorted(f, map[string][]*sexp{"Int": terms}, limit)
}

func instancesSorted(f *sexp, bySort map[string][]*sexp, limit *int) []*sexp {
	// find the first positive ∀ over Int variables; instantiate it with every
	// term combination; recurse on the results (nested quantifiers)
	var out []*sexp
	var rec func(f *sexp, depth int)
	seen := map[string]bool{}
	rec = func(f *sexp, depth int) {
		if *limit <= 0 || depth > 3 {
			return
		}
		path, q := findPositiveForall(f, true)
		if q == nil {
			return
		}
		vars := q.list[1].list
		// candidates for every variable's sort?
		for _, b := range vars {
			if len(bySort[b.list[1].String()]) == 0 {
				return
			}
		}
		combos := [][]*sexp{{}}
		for _, vb := range vars {
			terms := affine(vb.list[0].atom, bySort[vb.list[1].String()])
			var next [][]*sexp
			for _, c := range combos {
				for _, t := range terms {
					nc := append(append([]*sexp{}, c...), t)
					next = append(next, nc)
				}
			}
			combos = next
		}
		for _, c := range combos {
			if *limit <= 0 {
				return
			}
			m := map[string]*sexp{}
			for i, b := range vars {
				m[b.list[0].atom] = c[i]
			}
			body := q.list[2]
			if body.head() == "!" && len(body.list) >= 2 {
				body = body.list[1]
			}
			inst := replaceAt(f, path, body.subst(m))
			s := inst.String()
			if seen[s] {
				continue
			}
			seen[s] = true
			*limit--
			out = append(out, inst)
			rec(inst, depth+1)
		}
	}
	rec(f, 0)
	return out
}

// findPositiveForall locates (path of child indices) the first universally
// quantified subformula in positive position.
func findPositiveForall(f *sexp, pos bool) ([]int, *sexp) {
	if f.list == nil {
		return nil, nil
	}
	switch f.head() {
	case "forall":
		if pos && len(f.list) == 3 {
			return []int{}, f
		}
		return nil, nil
	case "exists":
		// an existential in negative position is a universal
		if !pos && len(f.list) == 3 {
			return []int{}, f
		}
		return nil, nil
	case "assert":
		if len(f.list) == 2 {
			if p, q := findPositiveForall(f.list[1], pos); q != nil {
				return append([]int{1}, p...), q
			}
		}
	case "and", "or":
		for i := 1; i < len(f.list); i++ {
			if p, q := findPositiveForall(f.list[i], pos); q != nil {
				return append([]int{i}, p...), q
			}
		}
	case "=>":
		if len(f.list) == 3 {
			if p, q := findPositiveForall(f.list[2], pos); q != nil {
				return append([]int{2}, p...), q
			}
			if p, q := findPositiveForall(f.list[1], !pos); q != nil {
				return append([]int{1}, p...), q
			}
		}
	case "not":
		if len(f.list) == 2 {
			if p, q := findPositiveForall(f.list[1], !pos); q != nil {
				return append([]int{1}, p...), q
			}
		}
	case "ite":
		if len(f.list) == 4 {
			for _, i := range []int{2, 3} {
				if p, q := findPositiveForall(f.list[i], pos); q != nil {
					return append([]int{i}, p...), q
				}
			}
		}
	case "!":
		if len(f.list) >= 2 {
			if p, q := findPositiveForall(f.list[1], pos); q != nil {
				return append([]int{1}, p...), q
			}
		}
	}
	return nil, nil
}

func replaceAt(f *sexp, path []int, r *sexp) *sexp {
	if len(path) == 0 {
		return r
	}
	n := &sexp{list: make([]*sexp, len(f.list))}
	copy(n.list, f.list)
	n.list[path[0]] = replaceAt(f.list[path[0]], path[1:], r)
	return n
}

// groundSpecApps collects applications of opaque spec functions (and ghost
// functions with Int result) whose arguments contain no bound variable.
func groundSpecApps(f *sexp, intFuncs map[string]bool, bound map[string]bool, out map[string]*sexp) bool {
	// returns whether f is ground
	if f.list == nil {
		return !bound[f.atom]
	}
	h := f.head()
	if h == "forall" || h == "exists" || h == "let" {
		if len(f.list) == 3 {
			nb := map[string]bool{}
			for k := range bound {
				nb[k] = true
			}
			for _, b := range f.list[1].list {
				if b.list != nil && len(b.list) > 0 {
					nb[b.list[0].atom] = true
				}
			}
			if h == "let" {
				for _, b := range f.list[1].list {
					groundSpecApps(b.list[1], intFuncs, bound, out)
				}
			}
			groundSpecApps(f.list[2], intFuncs, nb, out)
			return false
		}
	}
	ground := true
	for i, c := range f.list {
		if i == 0 && c.list == nil {
			continue
		}
		if !groundSpecApps(c, intFuncs, bound, out) {
			ground = false
		}
	}
	if ground && intFuncs[h] {
		out[f.String()] = f
	}
	// index terms of slice-element reads: (F_SE_x base (+ off t)) or (F_SE_x base t)
	if strings.HasPrefix(h, "F_SE_") && len(f.list) == 3 {
		idx := f.list[2]
		if idx.head() == "+" && len(idx.list) == 3 {
			idx = idx.list[2]
		}
		if idx.list != nil && isGround(idx, bound) && !isNumeral(idx) {
			out[idx.String()] = idx
		}
	}
	return ground
}

// arithAtoms collects symbolic constants compared arithmetically in the goal.
func arithAtoms(f *sexp, bound map[string]bool, out map[string]*sexp) {
	if f.list == nil {
		return
	}
	h := f.head()
	if (h == "forall" || h == "exists") && len(f.list) == 3 {
		nb := map[string]bool{}
		for k := range bound {
			nb[k] = true
		}
		for _, b := range f.list[1].list {
			if b.list != nil && len(b.list) > 0 {
				nb[b.list[0].atom] = true
			}
		}
		arithAtoms(f.list[2], nb, out)
		return
	}
	if h == "let" {
		return
	}
	if h == "<" || h == "<=" || h == ">" || h == ">=" {
		for _, c := range f.list[1:] {
			if c.list == nil && !isNumeral(c) && !bound[c.atom] && c.atom != "" && !strings.HasPrefix(c.atom, "sk!") {
				out[c.atom] = c
			}
			// small ground sums such as (+ idx 1): loop counters
			if (c.head() == "+" || c.head() == "-") && len(c.list) == 3 && isGround(c, bound) && len(c.String()) < 60 {
				out[c.String()] = c
				for _, a := range c.list[1:] {
					if a.list == nil && !isNumeral(a) && a.atom != "" {
						out[a.atom] = a
					}
				}
			}
		}
	}
	for _, c := range f.list {
		arithAtoms(c, bound, out)
	}
}

func isGround(f *sexp, bound map[string]bool) bool {
	if f.list == nil {
		return !bound[f.atom]
	}
	h := f.head()
	if h == "forall" || h == "exists" || h == "let" {
		return false
	}
	for _, c := range f.list {
		if !isGround(c, bound) {
			return false
		}
	}
	return true
}

func isNumeral(f *sexp) bool {
	if f.list == nil {
		return len(f.atom) > 0 && f.atom[0] >= '0' && f.atom[0] <= '9'
	}
	return f.head() == "-" && len(f.list) == 2 && isNumeral(f.list[1])
}

// augment rewrites (lines, guard, goal) into an equivalent query with a
// skolemised goal and extra ground instances.
// skolemiseHyp eliminates positively occurring existential quantifiers of a hypothesis
// that are not under a universal quantifier (existential elimination).
func skolemiseHyp(f *sexp, pos bool, counter *int, consts *[][2]string) (*sexp, bool) {
	if f.list == nil {
		return f, false
	}
	switch f.head() {
	case "exists":
		if pos && len(f.list) == 3 {
			m := map[string]*sexp{}
			for _, b := range f.list[1].list {
				*counter++
				name := fmt.Sprintf("hk!%s!%d", strings.ReplaceAll(b.list[0].atom, "!", "_"), *counter)
				*consts = append(*consts, [2]string{name, b.list[1].String()})
				m[b.list[0].atom] = &sexp{atom: name}
			}
			body, _ := skolemiseHyp(f.list[2].subst(m), pos, counter, consts)
			return body, true
		}
		return f, false
	case "forall":
		return f, false
	case "assert":
		if len(f.list) == 2 {
			b, ch := skolemiseHyp(f.list[1], pos, counter, consts)
			return &sexp{list: []*sexp{f.list[0], b}}, ch
		}
	case "and":
		changed := false
		n := &sexp{list: []*sexp{f.list[0]}}
		for _, c := range f.list[1:] {
			b, ch := skolemiseHyp(c, pos, counter, consts)
			changed = changed || ch
			n.list = append(n.list, b)
		}
		return n, changed
	case "=>":
		if len(f.list) == 3 {
			// antecedent kept as is: eliminating under an implication is sound because the
			// fresh constants are unconstrained when the antecedent is false
			b, ch := skolemiseHyp(f.list[2], pos, counter, consts)
			return &sexp{list: []*sexp{f.list[0], f.list[1], b}}, ch
		}
	}
	return f, false
}

func augment(lines []string, guard, goal string, intFuncs map[string]bool) (extraDecls []string, extra []string, newGoal string) {
	extraDecls, extra, newGoal = augment0(lines, guard, goal, intFuncs)
	extra = append(extra, derivedAddressFacts(append(append([]string{}, extra...), sx("assert", newGoal)))...)
	return extraDecls, extra, newGoal
}

func augment0(lines []string, guard, goal string, intFuncs map[string]bool) (extraDecls []string, extra []string, newGoal string) {
	g, ok := parseSexp(goal)
	if !ok {
		return nil, nil, goal
	}
	counter := 0
	var hypConsts [][2]string
	var skolemised []*sexp
	for i, l := range lines {
		if !strings.HasPrefix(l, "(assert ") || !strings.Contains(l, "(exists ") {
			continue
		}
		if f, ok := parseSexp(l); ok {
			if nf, ch := skolemiseHyp(f, true, &counter, &hypConsts); ch {
				lines[i] = nf.String()
				skolemised = append(skolemised, nf)
				// also an extra assertion: a caller may assemble a variant from its own copy of the lines
				extra = append(extra, nf.String())
			}
		}
	}
	sk, consts := skolemise(g, &counter)
	newGoal = sk.String()
	// key-position arguments of map families in the goal are candidates for key-sorted variables
	keySort := map[string]string{}
	for _, l := range lines {
		if strings.HasPrefix(l, "(declare-fun F_M") {
			f := strings.Fields(l)
			if len(f) >= 4 && strings.HasPrefix(f[2], "(Int") {
				keySort[f[1]] = strings.TrimSuffix(f[3], ")")
			}
		} else if strings.HasPrefix(l, "(define-fun F_M") {
			f := strings.Fields(l)
			// (define-fun NAME ((r!a Int) (r!b SORT)) ...
			if len(f) >= 6 && f[2] == "((r!a" {
				keySort[f[1]] = strings.TrimSuffix(f[5], "))")
			}
		}
	}
	var terms []*sexp
	other := map[string][]*sexp{}
	{
		keyTerms := map[string]*sexp{}
		var walk func(f *sexp, bound map[string]bool)
		walk = func(f *sexp, bound map[string]bool) {
			if f.list == nil {
				return
			}
			h := f.head()
			if (h == "forall" || h == "exists") && len(f.list) == 3 {
				nb := map[string]bool{}
				for k := range bound {
					nb[k] = true
				}
				for _, b := range f.list[1].list {
					if b.list != nil && len(b.list) > 0 {
						nb[b.list[0].atom] = true
					}
				}
				walk(f.list[2], nb)
				return
			}
			if srt, ok := keySort[h]; ok && len(f.list) == 3 && srt != "Int" {
				k := f.list[2]
				if k.list != nil && isGround(k, bound) && len(k.String()) < 400 {
					keyTerms[srt+"|"+k.String()] = k
				}
			}
			for _, c := range f.list {
				walk(c, bound)
			}
		}
		walk(sk, map[string]bool{})
		n := 0
		for _, k := range sortedSexpKeys(keyTerms) {
			srt := k[:strings.Index(k, "|")]
			if n < 3 {
				other[srt] = append(other[srt], keyTerms[k])
				n++
			}
		}
	}
	for _, c := range hypConsts {
		extraDecls = append(extraDecls, fmt.Sprintf("(declare-const %s %s)", c[0], c[1]))
		if c[1] != "Int" {
			other[c[1]] = append(other[c[1]], &sexp{atom: c[0]})
		}
	}
	for _, c := range consts {
		extraDecls = append(extraDecls, fmt.Sprintf("(declare-const %s %s)", c[0], c[1]))
		if c[1] == "Int" {
			terms = append(terms, &sexp{atom: c[0]})
		} else {
			other[c[1]] = append(other[c[1]], &sexp{atom: c[0]})
		}
	}
	// ground opaque applications in the goal are instantiation candidates too
	apps := map[string]*sexp{}
	groundSpecApps(sk, intFuncs, map[string]bool{}, apps)
	arithAtoms(sk, map[string]bool{}, apps)
	for _, h := range skolemised {
		hApps := map[string]*sexp{}
		groundSpecApps(h, intFuncs, map[string]bool{}, hApps)
		for k, v := range hApps {
			// only terms that mention a hypothesis skolem constant are witnesses worth trying
			if strings.Contains(k, "hk!") {
				apps[k] = v
			}
		}
	}
	for _, k := range sortedSexpKeys(apps) {
		terms = append(terms, apps[k])
	}
	// the last element is the usual witness of an existential over a list that was just appended to
	{
		var walkEx func(f *sexp, bound map[string]bool)
		n := 0
		walkEx = func(f *sexp, bound map[string]bool) {
			if f.list == nil {
				return
			}
			h := f.head()
			if (h == "exists" || h == "forall") && len(f.list) == 3 {
				nb := map[string]bool{}
				for k := range bound {
					nb[k] = true
				}
				for _, b := range f.list[1].list {
					if b.list != nil && len(b.list) > 0 {
						nb[b.list[0].atom] = true
					}
				}
				if h == "exists" && len(f.list[1].list) == 1 && n < 2 {
					v := f.list[1].list[0].list[0].atom
					var find func(g *sexp) *sexp
					find = func(g *sexp) *sexp {
						if g.list == nil {
							return nil
						}
						if g.head() == "<" && len(g.list) == 3 && g.list[1].list == nil && g.list[1].atom == v && isGround(g.list[2], nb) {
							return g.list[2]
						}
						for _, c := range g.list {
							if r := find(c); r != nil {
								return r
							}
						}
						return nil
					}
					if u := find(f.list[2]); u != nil && len(u.String()) < 300 {
						terms = append(terms, &sexp{list: []*sexp{{atom: "-"}, u, {atom: "1"}}})
						n++
					}
				}
				walkEx(f.list[2], nb)
				return
			}
			for _, c := range f.list {
				walkEx(c, bound)
			}
		}
		walkEx(sk, map[string]bool{})
	}
	// after an append, index i of the second operand sits at len(first)+i of the result and back:
	// offset candidates for the goal's constants (and later for witnesses)
	var splits []*sexp
	for _, l := range lines {
		if strings.HasPrefix(l, "(define-fun alen!") {
			if f, ok := parseSexp(l); ok && len(f.list) == 5 && f.list[4].head() == "+" && len(f.list[4].list) == 3 {
				splits = append(splits, f.list[4].list[1])
			}
		}
	}
	if len(splits) != 1 {
		splits = nil // shifted candidates are for the single-concatenation lemmas (append(a, b...) then a search)
	}
	isOffset := map[string]bool{}
	offsetTerms := func(c *sexp) []*sexp {
		var out []*sexp
		for _, sp := range splits {
			out = append(out, &sexp{list: []*sexp{{atom: "+"}, sp, c}}, &sexp{list: []*sexp{{atom: "-"}, c, sp}})
		}
		for _, o := range out {
			isOffset[o.String()] = true
		}
		return out
	}
	nIntConsts := 0
	for _, c := range consts {
		if c[1] == "Int" {
			nIntConsts++
		}
	}
	// (only for goals about a single index: with several constants the shifted terms crowd out the rest)
	if len(splits) > 0 && nIntConsts == 1 {
		for _, c := range consts {
			if c[1] == "Int" {
				terms = append(terms, offsetTerms(&sexp{atom: c[0]})...)
			}
		}
	} else {
		splits = nil
	}
	// witness indices introduced by library models (l.ForName(n) is l[fornameidx]) are
	// what uniqueness / first-match hypotheses have to be instantiated at
	if len(terms) > 0 {
		var wit []string
		for _, l := range lines {
			if strings.HasPrefix(l, "(declare-const fornameidx!") {
				wit = append(wit, strings.Fields(l)[1])
			}
		}
		if len(wit) > 2 {
			wit = wit[len(wit)-2:]
		}
		for _, w := range wit {
			terms = append(terms, &sexp{atom: w})
		}
	}
	// the element a range loop is looking at (index rangeindex+1) is what a hypothesis about the
	// whole input has to be instantiated at when the body has just copied that element somewhere
	if len(terms) > 0 {
		var idx []string
		for _, l := range lines {
			if strings.HasPrefix(l, "(declare-const lh_rangeindex!") {
				idx = append(idx, strings.Fields(l)[1])
			}
		}
		if len(idx) > 1 {
			idx = idx[len(idx)-1:]
		}
		for _, w := range idx {
			terms = append(terms, &sexp{list: []*sexp{{atom: "+"}, {atom: w}, {atom: "1"}}})
		}
	}
	if len(terms) == 0 && len(other) == 0 {
		return extraDecls, nil, newGoal
	}
	var quantified []*sexp
	if strings.Contains(newGoal, "(exists ") || strings.Contains(newGoal, "(forall ") {
		quantified = append(quantified, &sexp{list: []*sexp{{atom: "assert"}, {list: []*sexp{{atom: "not"}, sk}}}})
	}
	for _, l := range lines {
		if !strings.HasPrefix(l, "(assert ") || !strings.Contains(l, "(forall ") {
			continue
		}
		// heap closedness axioms carry their own patterns; instances at index terms are noise
		if strings.HasPrefix(l, "(assert (forall ((c!0 Int)") {
			continue
		}
		// axioms of derived address functions: their instances at the ground applications are added below
		if strings.HasPrefix(l, "(assert (forall ((ea!b Int)") || strings.HasPrefix(l, "(assert (forall ((fa!r Int)") {
			continue
		}
		if f, ok := parseSexp(l); ok {
			quantified = append(quantified, f)
		}
	}
	seen := map[string]bool{}
	limit := 900
	var prio []*sexp
	witSrc := map[string]int{}
	for round := 0; round < 3; round++ {
		if len(terms) > 16 {
			terms = terms[:16]
		}
		if os.Getenv("GOCV_DEBUG_INST") != "" {
			var ts []string
			for _, t := range terms {
				ts = append(ts, t.String())
			}
			fmt.Fprintf(os.Stderr, "inst round %d limit %d terms %v\n", round, limit, ts)
		}
		newApps := map[string]*sexp{}
		bySort := map[string][]*sexp{"Int": terms}
		for k, v := range other {
			bySort[k] = v
		}
		// first the instances at the priority constants only - the goal's constants in the first round, the
		// witnesses they produced (in order of creation) in the later ones, each with its shifts across
		// an append: existentials that these expose are eliminated and their witnesses offered to the next round
		constOnly := map[string][]*sexp{}
		for k, v := range bySort {
			for _, t := range v {
				if k != "Int" {
					if t.list == nil && (strings.HasPrefix(t.atom, "sk!") || strings.HasPrefix(t.atom, "hk!")) {
						constOnly[k] = append(constOnly[k], t)
					}
					continue
				}
			}
		}
		if prio == nil {
			for _, c := range consts {
				if c[1] == "Int" {
					prio = append(prio, &sexp{atom: c[0]})
				}
			}
			for _, t := range terms {
				if t.list != nil && isOffset[t.String()] {
					prio = append(prio, t)
				}
			}
		}
		constOnly["Int"] = nil
		for _, c := range consts {
			if c[1] == "Int" {
				constOnly["Int"] = append(constOnly["Int"], &sexp{atom: c[0]})
			}
		}
		for _, t := range prio {
			dup := false
			for _, u := range constOnly["Int"] {
				if u.String() == t.String() {
					dup = true
				}
			}
			if !dup {
				constOnly["Int"] = append(constOnly["Int"], t)
			}
		}
		var newWit []*sexp
		nWit := 0
		for fi, f := range quantified {
			if round >= 2 || !strings.Contains(f.String(), "(exists ") {
				continue
			}
			// a hypothesis is not instantiated at the witnesses it produced itself (forall x exists y ...
			// fed with its own y only yields junk that crowds out the useful witnesses)
			co := map[string][]*sexp{}
			for k, v := range constOnly {
				for _, t := range v {
					if src, ok := witSrc[t.String()]; ok && src == fi {
						continue
					}
					co[k] = append(co[k], t)
				}
			}
			for _, inst := range instancesSorted(f, co, &limit) {
				if nWit < 16 && strings.Contains(inst.String(), "(exists ") {
					var hc [][2]string
					if ni, ch := skolemiseHyp(inst, true, &counter, &hc); ch {
						inst = ni
						for _, c := range hc {
							nWit++
							extraDecls = append(extraDecls, fmt.Sprintf("(declare-const %s %s)", c[0], c[1]))
							if c[1] == "Int" {
								newApps[c[0]] = &sexp{atom: c[0]}
								newWit = append(newWit, &sexp{atom: c[0]})
								witSrc[c[0]] = fi
							}
						}
					}
				}
				s := inst.String()
				if !seen[s] {
					seen[s] = true
					extra = append(extra, s)
					groundSpecApps(inst, intFuncs, map[string]bool{}, newApps)
				}
			}
		}
		for _, f := range quantified {
			for _, inst := range instancesSorted(f, bySort, &limit) {
				s := inst.String()
				if !seen[s] {
					seen[s] = true
					extra = append(extra, s)
					groundSpecApps(inst, intFuncs, map[string]bool{}, newApps)
				}
			}
		}
		have := map[string]bool{}
		for _, t := range terms {
			have[t.String()] = true
		}
		added := false
		// the witnesses go first, in order of creation (the earliest come from the goal's own constants):
		// the cut at the start of the next round must not drop them
		if len(newWit) > 10 {
			newWit = newWit[:10]
		}
		var front []*sexp
		prio = nil
		for i, w := range newWit {
			front = append(front, w)
			prio = append(prio, w)
			if i < 2 {
				off := offsetTerms(w)
				front = append(front, off...)
				prio = append(prio, off...)
				if src, ok := witSrc[w.String()]; ok {
					for _, o := range off {
						witSrc[o.String()] = src
					}
				}
			}
			added = true
		}
		if prio == nil {
			prio = []*sexp{}
		}
		for _, k := range sortedSexpKeys(newApps) {
			if !have[k] && !strings.HasPrefix(k, "hk!") {
				terms = append(terms, newApps[k])
				added = true
			}
		}
		terms = append(front, terms...)
		if !added {
			break
		}
	}
	return extraDecls, extra, newGoal
}

// derivedAddressFacts: for every ground application of an element-address or field-address
// function in the given assertions, the instance of its axiom (injective, below zero).
func derivedAddressFacts(asserts []string) []string {
	seen := map[string]bool{}
	var out []string
	var walk func(f *sexp)
	walk = func(f *sexp) {
		if f.list == nil {
			return
		}
		for _, c := range f.list {
			walk(c)
		}
		h := f.head()
		if strings.Contains(h, "!") {
			return
		}
		isEa := strings.HasPrefix(h, "ea_") && len(f.list) == 3
		isFa := strings.HasPrefix(h, "fa_") && len(f.list) == 2
		if !isEa && !isFa {
			return
		}
		t := f.String()
		if seen[t] || strings.Contains(t, "q!") || len(t) > 600 {
			return
		}
		seen[t] = true
		if isEa {
			out = append(out, sx("assert", and(sx("<", t, "0"), eq(sx(h+"!base", t), f.list[1].String()), eq(sx(h+"!idx", t), f.list[2].String()))))
		} else {
			out = append(out, sx("assert", and(sx("<", t, "0"), eq(sx(h+"!inv", t), f.list[1].String()))))
		}
	}
	for _, a := range asserts {
		if !strings.Contains(a, "(ea_") && !strings.Contains(a, "(fa_") {
			continue
		}
		if f, ok := parseSexp(a); ok {
			walk(f)
		}
	}
	return out
}

func sortedSexpKeys(m map[string]*sexp) []string {
	ks := make([]string, 0, len(m))
	for k := range m {
		ks = append(ks, k)
	}
	sort.Strings(ks)
	return ks
}

// specVarBase: the name the contract gave a bound variable ("q!k!12") or the variable a
// skolem constant came from ("sk!q_k_12!3", "hk!q_k_12!3"); "" for anything else.
func specVarBase(name string) string {
	switch {
	case strings.HasPrefix(name, "q!"):
		r := name[2:]
		if i := strings.LastIndex(r, "!"); i > 0 {
			return r[:i]
		}
		return ""
	case strings.HasPrefix(name, "sk!q_"), strings.HasPrefix(name, "hk!q_"):
		r := name[5:]
		if i := strings.Index(r, "!"); i > 0 {
			r = r[:i]
		}
		if i := strings.LastIndex(r, "_"); i > 0 {
			return r[:i]
		}
	}
	return ""
}

// affine narrows the candidates of a bound variable: when some skolem constants come from a
// variable of the same name in the contracts (the goal's k for a hypothesis' k), the other
// skolem constants are not tried for it. Every instance is a consequence either way; this
// only decides which ones are spelled out for the solver.
func affine(bound string, terms []*sexp) []*sexp {
	b := specVarBase(bound)
	if b == "" {
		return terms
	}
	match := false
	for _, t := range terms {
		if t.list == nil && specVarBase(t.atom) == b {
			match = true
			break
		}
	}
	if !match {
		return terms
	}
	var out []*sexp
	for _, t := range terms {
		// only the goal's own constants are matched by name; witnesses of hypotheses go everywhere
		if t.list == nil && strings.HasPrefix(t.atom, "sk!") {
			if tb := specVarBase(t.atom); tb != "" && tb != b {
				continue
			}
		}
		out = append(out, t)
	}
	return out
}
