package main

// C13: order-independence of `range` loops over maps, decided per loop by an iteration
// contract (parallel-loop argument): the body for key k may write only
//   - variables and objects local to the iteration,
//   - objects reached through the entry's own value (footprint W(k); distinct entries are
//     assumed not to share these objects - listed as assumption),
//   - entries of an outer map keyed by the loop key itself (disjoint for distinct keys),
//   - commutative accumulators: set insertion (constant value), delete, boolean flags that
//     are only ever set to one constant, counters, and bag accumulation with append, which
//     is order-independent only as a multiset (reported as "bag").
// Anything else (overwriting an outer variable, writing an outer map under another key,
// calling a function that writes shared state, leaving the loop early) is reported and has
// to be justified by a `//@ commute` annotation in the contract file (an assumption that is
// listed in the evidence) or recorded as a finding.

import (
	"fmt"
	"go/token"
	"go/types"
	"sort"
	"strings"

	"golang.org/x/tools/go/ssa"
)

type mapLoop struct {
	fn     *ssa.Function
	rng    *ssa.Range
	head   *ssa.BasicBlock
	blocks map[*ssa.BasicBlock]bool
	ord    int // ordinal among ALL loops of the function (same numbering as contracts)
	key    ssa.Value
	val    ssa.Value
}

type commuteVerdict struct {
	Func  string   `json:"function"`
	Loop  int      `json:"loop"`
	Pos   string   `json:"pos"`
	Class string   `json:"class"` // commutative | bag | flagged
	Notes []string `json:"notes,omitempty"`
	Flags []string `json:"flags,omitempty"`
	Annot string   `json:"annotation,omitempty"`
}

func naturalLoops(fn *ssa.Function) map[*ssa.BasicBlock]map[*ssa.BasicBlock]bool {
	loops := map[*ssa.BasicBlock]map[*ssa.BasicBlock]bool{}
	for _, b := range fn.Blocks {
		for _, s := range b.Succs {
			if s.Dominates(b) {
				set := loops[s]
				if set == nil {
					set = map[*ssa.BasicBlock]bool{s: true}
					loops[s] = set
				}
				var stack []*ssa.BasicBlock
				if !set[b] {
					set[b] = true
					stack = append(stack, b)
				}
				for len(stack) > 0 {
					n := stack[len(stack)-1]
					stack = stack[:len(stack)-1]
					for _, p := range n.Preds {
						if !set[p] {
							set[p] = true
							stack = append(stack, p)
						}
					}
				}
			}
		}
	}
	return loops
}

func (e *Engine) mapLoops() []*mapLoop {
	var out []*mapLoop
	for _, fn := range e.allFuncs {
		if strings.HasSuffix(e.fset.Position(fn.Pos()).Filename, "_test.go") || len(fn.Blocks) == 0 {
			continue
		}
		loops := naturalLoops(fn)
		var heads []*ssa.BasicBlock
		for h := range loops {
			heads = append(heads, h)
		}
		sort.Slice(heads, func(i, j int) bool { return heads[i].Index < heads[j].Index })
		for ord, h := range heads {
			for _, ins := range h.Instrs {
				nx, ok := ins.(*ssa.Next)
				if !ok || nx.IsString {
					continue
				}
				rng, ok := nx.Iter.(*ssa.Range)
				if !ok {
					continue
				}
				if _, ok := rng.X.Type().Underlying().(*types.Map); !ok {
					continue
				}
				ml := &mapLoop{fn: fn, rng: rng, head: h, blocks: loops[h], ord: ord}
				for _, r := range *nx.Referrers() {
					if ex, ok := r.(*ssa.Extract); ok {
						if ex.Index == 1 {
							ml.key = ex
						} else if ex.Index == 2 {
							ml.val = ex
						}
					}
				}
				out = append(out, ml)
			}
		}
	}
	return out
}

// derivedFrom: v is computed from root by loads, field/index addressing, extracts and
// type assertions only (so it denotes an object reached through root), following the
// local variable cells of the loop body.
func derivedFrom(v ssa.Value, roots map[ssa.Value]bool, ml *mapLoop, depth int) bool {
	if depth > 12 || v == nil {
		return false
	}
	if roots[v] {
		return true
	}
	switch x := v.(type) {
	case *ssa.UnOp:
		if x.Op == token.MUL {
			if a, ok := x.X.(*ssa.Alloc); ok {
				// a local cell: derived if every store into it inside the loop stores a derived value
				any := false
				for _, r := range *a.Referrers() {
					if st, ok := r.(*ssa.Store); ok && st.Addr == a {
						if !derivedFrom(st.Val, roots, ml, depth+1) {
							return false
						}
						any = true
					}
				}
				return any
			}
			return derivedFrom(x.X, roots, ml, depth+1)
		}
	case *ssa.FieldAddr:
		return derivedFrom(x.X, roots, ml, depth+1)
	case *ssa.IndexAddr:
		return derivedFrom(x.X, roots, ml, depth+1)
	case *ssa.Extract:
		return derivedFrom(x.Tuple, roots, ml, depth+1)
	case *ssa.TypeAssert:
		return derivedFrom(x.X, roots, ml, depth+1)
	case *ssa.Lookup:
		if ml != nil && sameAsKey(x.Index, ml) {
			return true // outer[k]: the entry of another map under the loop key (per-key footprint)
		}
		return derivedFrom(x.X, roots, ml, depth+1)
	case *ssa.ChangeType:
		return derivedFrom(x.X, roots, ml, depth+1)
	case *ssa.MakeInterface:
		return derivedFrom(x.X, roots, ml, depth+1)
	case *ssa.Slice:
		return derivedFrom(x.X, roots, ml, depth+1)
	}
	return false
}

func allocInLoop(v ssa.Value, ml *mapLoop, depth int) bool {
	if depth > 8 || v == nil {
		return false
	}
	switch x := v.(type) {
	case *ssa.Alloc:
		return ml.blocks[x.Block()] && x.Block() != ml.head
	case *ssa.MakeMap:
		return ml.blocks[x.Block()]
	case *ssa.MakeSlice:
		return ml.blocks[x.Block()]
	case *ssa.FieldAddr:
		return allocInLoop(x.X, ml, depth+1)
	case *ssa.IndexAddr:
		return allocInLoop(x.X, ml, depth+1)
	case *ssa.UnOp:
		if x.Op == token.MUL {
			if a, ok := x.X.(*ssa.Alloc); ok && ml.blocks[a.Block()] && a.Block() != ml.head {
				// local cell: all stores hold loop-allocated objects?
				any := false
				for _, r := range *a.Referrers() {
					if st, ok := r.(*ssa.Store); ok && st.Addr == a {
						if !allocInLoop(st.Val, ml, depth+1) {
							return false
						}
						any = true
					}
				}
				return any
			}
		}
	case *ssa.Slice:
		return allocInLoop(x.X, ml, depth+1)
	}
	return false
}

func isConstVal(v ssa.Value) bool {
	switch x := v.(type) {
	case *ssa.Const:
		return true
	case *ssa.UnOp:
		// load of an empty struct literal cell (struct{}{})
		if x.Op == token.MUL {
			if st, ok := x.Type().Underlying().(*types.Struct); ok && st.NumFields() == 0 {
				return true
			}
		}
	}
	if st, ok := v.Type().Underlying().(*types.Struct); ok && st.NumFields() == 0 {
		return true
	}
	return false
}

func (e *Engine) classifyMapLoop(ml *mapLoop) *commuteVerdict {
	fn := ml.fn
	pkg := fn.Pkg
	if pkg == nil && fn.Parent() != nil {
		pkg = fn.Parent().Pkg
	}
	v := &commuteVerdict{Func: shortPkg(pkg.Pkg.Path()) + "." + fn.RelString(pkg.Pkg), Loop: ml.ord, Pos: strings.TrimPrefix(e.fset.Position(ml.rng.Pos()).String(), e.repoDir+"/")}
	keyRoots := map[ssa.Value]bool{}
	valRoots := map[ssa.Value]bool{}
	if ml.key != nil {
		keyRoots[ml.key] = true
	}
	if ml.val != nil {
		valRoots[ml.val] = true
	}
	flag := func(pos token.Pos, format string, args ...interface{}) {
		s := fmt.Sprintf(format, args...)
		if pos.IsValid() {
			if ex := e.sourceExcerpt(pos); ex != "" {
				s += " {" + ex + "}"
			}
		}
		for _, f := range v.Flags {
			if f == s {
				return
			}
		}
		v.Flags = append(v.Flags, s)
	}
	note := func(s string) {
		for _, n := range v.Notes {
			if n == s {
				return
			}
		}
		v.Notes = append(v.Notes, s)
	}
	bag := false
	// constant stores into outer boolean/other cells: collect per alloc
	type cellInfo struct {
		consts map[string]bool
		other  bool
		pos    token.Pos
	}
	cells := map[*ssa.Alloc]*cellInfo{}
	var blocks []*ssa.BasicBlock
	for b := range ml.blocks {
		blocks = append(blocks, b)
	}
	sort.Slice(blocks, func(i, j int) bool { return blocks[i].Index < blocks[j].Index })
	for _, b := range blocks {
		for _, ins := range b.Instrs {
			switch x := ins.(type) {
			case *ssa.Store:
				switch a := x.Addr.(type) {
				case *ssa.Alloc:
					if ml.blocks[a.Block()] && a.Block() != ml.head {
						continue // variable of the iteration
					}
					if a.Comment == "rangeindex" || strings.HasPrefix(a.Comment, "defer$") {
						continue
					}
					ci := cells[a]
					if ci == nil {
						ci = &cellInfo{consts: map[string]bool{}, pos: x.Pos()}
						cells[a] = ci
					}
					if x.Val == ml.key || x.Val == ml.val {
						// the loop variable itself: assigned from the iterator before any use
						delete(cells, a)
						continue
					} else if c, ok := x.Val.(*ssa.Const); ok {
						ci.consts[c.String()] = true
					} else if call, ok := x.Val.(*ssa.Call); ok && isAppendOf(call, a) {
						bag = true
						note("bag accumulator " + a.Comment + " (append): order-independent as a multiset only")
					} else if isMonotoneBool(x.Val, a) {
						note("boolean accumulator " + a.Comment + " (&&/|| chain)")
					} else if isCounter(x.Val, a) {
						note("counter " + a.Comment)
					} else {
						ci.other = true
						ci.pos = x.Pos()
					}
				default:
					if allocInLoop(x.Addr, ml, 0) {
						continue
					}
					if derivedFrom(x.Addr, valRoots, ml, 0) {
						note("writes the object reached through the entry's value (footprint of the key)")
						continue
					}
					if ia, ok := x.Addr.(*ssa.IndexAddr); ok && sameAsKey(ia.Index, ml) {
						note("writes the outer slice at the loop key itself (disjoint elements)")
						continue
					}
					flag(x.Pos(), "store into an object shared by all iterations")
				}
			case *ssa.MapUpdate:
				if allocInLoop(x.Map, ml, 0) {
					continue
				}
				if derivedFrom(x.Map, valRoots, ml, 0) {
					note("updates a map reached through the entry's value (footprint of the key)")
					continue
				}
				if derivedFrom(x.Key, keyRoots, ml, 0) && sameAsKey(x.Key, ml) {
					note("writes the outer map under the loop key itself (disjoint entries)")
					continue
				}
				if isConstVal(x.Value) {
					note("set insertion (constant value)")
					continue
				}
				flag(x.Pos(), "outer map written under a key other than the loop key")
			case *ssa.Return:
				if returnsError(x) {
					note("error exit: which of several failing entries is reported depends on the order, whether an error is reported does not")
				} else {
					flag(x.Pos(), "leaves the loop early (return): result may depend on which entry comes first")
				}
			case ssa.CallInstruction:
				cc := x.Common()
				if bi, ok := cc.Value.(*ssa.Builtin); ok {
					switch bi.Name() {
					case "delete":
						note("delete from a map (deletes commute)")
					case "append", "len", "cap", "copy", "print", "println", "ssa:wrapnilchk":
					}
					continue
				}
				m := map[string]bool{}
				e.instrWrites(fn, x, m, func(f *ssa.Function) map[string]bool { return e.modFamilies(f) })
				delete(m, "")
				if len(m) == 0 {
					continue
				}
				// writes confined to objects passed in that are per-iteration?
				ok := true
				for _, a := range cc.Args {
					if _, isPtrLike := a.Type().Underlying().(*types.Pointer); isPtrLike {
						if !(allocInLoop(a, ml, 0) || derivedFrom(a, valRoots, ml, 0)) {
							ok = false
						}
					}
					if _, isMap := a.Type().Underlying().(*types.Map); isMap {
						if !(allocInLoop(a, ml, 0) || derivedFrom(a, valRoots, ml, 0)) {
							ok = false
						}
					}
				}
				if cc.IsInvoke() || !ok || m["*"] {
					var ks []string
					for k := range m {
						ks = append(ks, shortenKey(k))
					}
					sort.Strings(ks)
					if len(ks) > 4 {
						ks = append(ks[:4], "...")
					}
					name := ""
					if f, isF := cc.Value.(*ssa.Function); isF {
						name = f.Name()
					} else if cc.IsInvoke() {
						name = cc.Method.Name()
					} else {
						name = "dynamic call"
					}
					flag(x.Pos(), "calls %s which may write state shared by the iterations (%s)", name, strings.Join(ks, ","))
				} else {
					note("calls a function that writes only through per-iteration arguments")
				}
			}
		}
	}
	// early exit by break: an edge from a body block to a block outside the loop other than from the head
	for _, b := range blocks {
		if b == ml.head {
			continue
		}
		for _, s := range b.Succs {
			if !ml.blocks[s] {
				if _, isRet := b.Instrs[len(b.Instrs)-1].(*ssa.Return); isRet {
					continue
				}
				// an exit that only leads to `return ..., err` with a non-nil error
				if r := soleReturn(s); r != nil {
					if returnsError(r) {
						note("error exit: which of several failing entries is reported depends on the order, whether an error is reported does not")
						continue
					}
					flag(r.Pos(), "leaves the loop early (return): result may depend on which entry comes first")
					continue
				}
				flag(b.Instrs[len(b.Instrs)-1].Pos(), "leaves the loop early (break): result may depend on which entry comes first")
			}
		}
	}
	for a, ci := range cells {
		if ci.other {
			flag(ci.pos, "outer variable %s is overwritten (last writer wins)", a.Comment)
		} else if len(ci.consts) > 1 {
			flag(ci.pos, "outer variable %s is set to different constants", a.Comment)
		} else if len(ci.consts) == 1 {
			note("outer variable " + a.Comment + " only ever set to one constant (idempotent)")
		}
	}
	sort.Strings(v.Flags)
	sort.Strings(v.Notes)
	switch {
	case len(v.Flags) > 0:
		v.Class = "flagged"
	case bag:
		v.Class = "bag"
	default:
		v.Class = "commutative"
	}
	return v
}

// soleReturn: the block (following unconditional jumps) ends in a return.
func soleReturn(b *ssa.BasicBlock) *ssa.Return {
	for i := 0; i < 4 && b != nil; i++ {
		last := b.Instrs[len(b.Instrs)-1]
		switch x := last.(type) {
		case *ssa.Return:
			return x
		case *ssa.Jump:
			b = b.Succs[0]
		default:
			return nil
		}
	}
	return nil
}

// returnsError: the function's last result is an error and this return yields a value for
// it that is not the constant nil.
func returnsError(r *ssa.Return) bool {
	if len(r.Results) == 0 {
		return false
	}
	last := r.Results[len(r.Results)-1]
	if named, ok := last.Type().(*types.Named); !ok || named.Obj().Name() != "error" || named.Obj().Pkg() != nil {
		return false
	}
	// NaiveForm returns through result cells: look at the store into the cell in this block
	if u, ok := last.(*ssa.UnOp); ok && u.Op == token.MUL {
		for _, ins := range r.Block().Instrs {
			if st, ok := ins.(*ssa.Store); ok && st.Addr == u.X {
				if c, ok := st.Val.(*ssa.Const); ok && c.Value == nil {
					return false
				}
				return true
			}
		}
	}
	if c, ok := last.(*ssa.Const); ok && c.Value == nil {
		return false
	}
	return true
}

func sameAsKey(k ssa.Value, ml *mapLoop) bool {
	// the key expression is the loop key or a load of the variable holding it
	if k == ml.key {
		return true
	}
	if u, ok := k.(*ssa.UnOp); ok && u.Op == token.MUL {
		if a, ok := u.X.(*ssa.Alloc); ok {
			n := 0
			okAll := true
			for _, r := range *a.Referrers() {
				if st, ok := r.(*ssa.Store); ok && st.Addr == a {
					n++
					if st.Val != ml.key {
						okAll = false
					}
				}
			}
			return n > 0 && okAll
		}
	}
	return false
}

func isAppendOf(call *ssa.Call, a *ssa.Alloc) bool {
	bi, ok := call.Call.Value.(*ssa.Builtin)
	if !ok || bi.Name() != "append" {
		return false
	}
	if u, ok := call.Call.Args[0].(*ssa.UnOp); ok && u.Op == token.MUL && u.X == a {
		return true
	}
	return false
}

func isMonotoneBool(v ssa.Value, a *ssa.Alloc) bool {
	if b, ok := a.Type().Underlying().(*types.Pointer).Elem().Underlying().(*types.Basic); !ok || b.Info()&types.IsBoolean == 0 {
		return false
	}
	// x = x && e / x = x || e are lowered to a phi whose edges are the old value / constants / e
	if ph, ok := v.(*ssa.Phi); ok {
		for _, ed := range ph.Edges {
			if u, ok := ed.(*ssa.UnOp); ok && u.Op == token.MUL && u.X == a {
				return true
			}
		}
		return true
	}
	if bo, ok := v.(*ssa.BinOp); ok && (bo.Op == token.AND || bo.Op == token.OR) {
		return true
	}
	return false
}

func isCounter(v ssa.Value, a *ssa.Alloc) bool {
	bo, ok := v.(*ssa.BinOp)
	if !ok || (bo.Op != token.ADD && bo.Op != token.SUB) {
		return false
	}
	if u, ok := bo.X.(*ssa.UnOp); ok && u.Op == token.MUL && u.X == a {
		_, isC := bo.Y.(*ssa.Const)
		return isC
	}
	return false
}

// commuteObligations: one obligation per map-range loop.
func (e *Engine) commuteObligations(prop string) ([]*Obligation, []*commuteVerdict) {
	var obls []*Obligation
	var verdicts []*commuteVerdict
	annots := map[string]*FrameSpec{}
	for _, a := range e.contracts.Commutes {
		annots[a.Fields[0]+"#"+a.Fields[1]] = a
	}
	for _, ml := range e.mapLoops() {
		v := e.classifyMapLoop(ml)
		key := v.Func + "#" + fmt.Sprint(v.Loop)
		o := &Obligation{
			Name: fmt.Sprintf("%s#commute{loop%d}", v.Func, v.Loop), Func: v.Func, Kind: "commute", Props: []string{prop},
			Expect: "unsat", Pos: v.Pos, Text: "iterations of the range over a map commute",
		}
		res := &SolveResult{Solver: "static-dataflow", Status: "unsat"}
		if v.Class == "flagged" {
			if a, ok := annots[key]; ok {
				v.Annot = a.Text
				switch {
				case strings.HasPrefix(a.Text, "undecided:"):
					v.Class = "undecided"
					res.Status = "unknown"
					res.Detail = a.Text + " | flags: " + strings.Join(v.Flags, "; ")
				case strings.HasPrefix(a.Text, "finding:"):
					v.Class = "finding"
					res.Status = "sat"
					res.Model = a.Text + " | flags: " + strings.Join(v.Flags, "; ")
				default:
					v.Class = "annotated"
					res.Detail = "justified by annotation: " + a.Text + " | flags: " + strings.Join(v.Flags, "; ")
				}
			} else {
				res.Status = "sat"
				res.Model = strings.Join(v.Flags, "; ")
			}
		} else {
			res.Detail = v.Class + ": " + strings.Join(v.Notes, "; ")
		}
		o.Result = res
		obls = append(obls, o)
		verdicts = append(verdicts, v)
	}
	return obls, verdicts
}
