package main

// Loading of /repo (typed syntax + SSA), lookup tables, inferred write sets.

import (
	"fmt"
	"go/ast"
	"go/token"
	"go/types"
	"os"
	"path/filepath"
	"sort"
	"strings"

	"golang.org/x/tools/go/ast/astutil"
	"golang.org/x/tools/go/packages"
	"golang.org/x/tools/go/ssa"
	"golang.org/x/tools/go/ssa/ssautil"
)

const repoModule = "github.com/buildbuildio/pebbles"

type Engine struct {
	repoDir   string
	fset      *token.FileSet
	pkgs      []*packages.Package
	pkgByPath map[string]*packages.Package
	prog      *ssa.Program
	u         *Universe
	contracts *ContractSet
	sizes     types.Sizes

	contractPos   map[string]token.Pos
	contractScope map[string]*types.Scope
	contractFiles []string

	funcs           map[string]*ssa.Function // pkg::rel -> fn
	allFuncs        []*ssa.Function
	modCache        map[*ssa.Function]map[string]bool
	ghostDecl       map[string]string
	ghostOrd        []string
	derived         map[string]string
	derivedOrd      []string
	opaque          map[string]string
	watched         map[string]bool // callees named in lastresult()/lastarg()/atlast()
	opaqueOrd       []string
	funcRefs        map[*ssa.Function]string
	globalRefs      map[*ssa.Global]string
	fileOf          map[string]*ast.File
	srcCache        map[string][]byte
	implCache       map[string][]*ssa.Function
	intFuncs        map[string]bool
	nonNilElems     map[string]bool   // type keys of pointer element types that are never nil inside slices
	nonNilFields    map[string]string // family key H|T|f -> "checked" | "assumed"
	nonNilBoxed     map[string]bool
	guarded         map[string]guardInfo // family key H|T|f -> mutex field
	commuteVerdicts []*commuteVerdict
}

type guardInfo struct {
	structT  types.Type
	mutexIdx int
	props    []string
	label    string
}

func loadEngine(repoDir string) (*Engine, error) {
	abs, err := filepath.Abs(repoDir)
	if err != nil {
		return nil, err
	}
	fset := token.NewFileSet()
	cfg := &packages.Config{
		Mode:       packages.LoadAllSyntax,
		Dir:        abs,
		Fset:       fset,
		BuildFlags: []string{"-tags=verif"},
		Env:        append(os.Environ(), "GOFLAGS=-mod=mod", "GOPROXY=off", "GOSUMDB=off", "GOTOOLCHAIN=local"),
	}
	pkgs, err := packages.Load(cfg, "./...")
	if err != nil {
		return nil, err
	}
	var errs []string
	packages.Visit(pkgs, nil, func(p *packages.Package) {
		if strings.HasPrefix(p.PkgPath, repoModule) {
			for _, e := range p.Errors {
				errs = append(errs, e.Error())
			}
		}
	})
	if len(errs) > 0 {
		return nil, fmt.Errorf("package errors:\n%s", strings.Join(errs, "\n"))
	}
	prog, _ := ssautil.AllPackages(pkgs, ssa.NaiveForm|ssa.GlobalDebug|ssa.InstantiateGenerics)
	prog.Build()
	e := &Engine{
		repoDir: abs, fset: fset, pkgs: pkgs, prog: prog, u: newUniverse(),
		pkgByPath:   map[string]*packages.Package{},
		contracts:   &ContractSet{Funcs: map[string]*Contract{}, Defines: map[string]*Define{}},
		sizes:       types.SizesFor("gc", "amd64"),
		contractPos: map[string]token.Pos{}, contractScope: map[string]*types.Scope{},
		funcs: map[string]*ssa.Function{}, modCache: map[*ssa.Function]map[string]bool{},
		ghostDecl: map[string]string{}, derived: map[string]string{}, opaque: map[string]string{}, watched: watchedCallees,
		funcRefs: map[*ssa.Function]string{}, globalRefs: map[*ssa.Global]string{},
		fileOf: map[string]*ast.File{}, srcCache: map[string][]byte{}, implCache: map[string][]*ssa.Function{}, intFuncs: map[string]bool{},
	}
	packages.Visit(pkgs, nil, func(p *packages.Package) {
		if _, ok := e.pkgByPath[p.PkgPath]; !ok {
			e.pkgByPath[p.PkgPath] = p
		}
	})
	for _, p := range pkgs {
		e.pkgByPath[p.PkgPath] = p
		for _, f := range p.Syntax {
			name := fset.Position(f.Pos()).Filename
			e.fileOf[name] = f
			if strings.HasSuffix(name, "zz_contracts_verif.go") {
				e.contracts.parseFile(fset, f, p.PkgPath, strings.TrimPrefix(name, abs+"/"))
				e.contractPos[p.PkgPath] = f.End() - 1
				e.contractScope[p.PkgPath] = p.Types.Scope().Innermost(f.End() - 1)
				if sc := p.TypesInfo.Scopes[f]; sc != nil {
					e.contractScope[p.PkgPath] = sc
				}
				e.contractFiles = append(e.contractFiles, name)
			}
		}
		if _, ok := e.contractPos[p.PkgPath]; !ok && len(p.Syntax) > 0 {
			e.contractPos[p.PkgPath] = p.Syntax[0].End() - 1
		}
	}
	for fn := range ssautil.AllFunctions(prog) {
		if fn.Pkg == nil && fn.Parent() == nil {
			// instantiated generics / wrappers have no Pkg
			continue
		}
		pkg := fn.Pkg
		if pkg == nil {
			continue
		}
		if !e.inRepo(pkg.Pkg.Path()) {
			continue
		}
		if fn.Synthetic != "" && fn.Parent() == nil {
			continue
		}
		rel := fn.RelString(pkg.Pkg)
		e.funcs[pkg.Pkg.Path()+"::"+rel] = fn
		e.allFuncs = append(e.allFuncs, fn)
	}
	sort.Slice(e.allFuncs, func(i, j int) bool { return e.allFuncs[i].String() < e.allFuncs[j].String() })
	e.guarded = map[string]guardInfo{}
	for _, g := range e.contracts.Guarded {
		w := strings.Fields(g.Text) // T.f by m
		p := e.pkgByPath[g.Pkg]
		if p == nil || len(w) != 3 || w[1] != "by" || !strings.Contains(w[0], ".") {
			e.contracts.Errors = append(e.contracts.Errors, "guarded: want T.f by m: "+g.Text)
			continue
		}
		i := strings.Index(w[0], ".")
		tn, _ := p.Types.Scope().Lookup(w[0][:i]).(*types.TypeName)
		if tn == nil {
			e.contracts.Errors = append(e.contracts.Errors, "guarded: unknown type "+w[0][:i])
			continue
		}
		st, ok := tn.Type().Underlying().(*types.Struct)
		if !ok {
			continue
		}
		mi := -1
		for k := 0; k < st.NumFields(); k++ {
			if st.Field(k).Name() == w[2] {
				mi = k
			}
		}
		if mi < 0 {
			e.contracts.Errors = append(e.contracts.Errors, "guarded: unknown mutex field "+w[2])
			continue
		}
		e.guarded[fmt.Sprintf("H|%s|%s", typeKey(tn.Type()), w[0][i+1:])] = guardInfo{structT: tn.Type(), mutexIdx: mi, props: g.Props, label: g.Text}
	}
	e.nonNilBoxed = map[string]bool{}
	for _, nb := range e.contracts.NonNilBoxed {
		if p := e.pkgByPath[nb[0]]; p != nil {
			if tv, err := types.Eval(fset, p.Types, e.contractPos[nb[0]], nb[1]); err == nil && tv.IsType() {
				e.nonNilBoxed[typeKey(tv.Type)] = true
			}
		}
	}
	e.nonNilFields = map[string]string{}
	for _, nf := range e.contracts.NonNilFields {
		p := e.pkgByPath[nf[0]]
		if p == nil {
			continue
		}
		i := strings.LastIndex(nf[1], ".")
		if i < 0 {
			e.contracts.Errors = append(e.contracts.Errors, "nonnil-field needs T.f: "+nf[1])
			continue
		}
		tv, err := types.Eval(fset, p.Types, e.contractPos[nf[0]], nf[1][:i])
		if err != nil || !tv.IsType() {
			e.contracts.Errors = append(e.contracts.Errors, fmt.Sprintf("nonnil-field %s: cannot resolve type", nf[1]))
			continue
		}
		kind := "checked"
		if nf[2] == "assume-nonnil-field" {
			kind = "assumed"
		}
		e.nonNilFields[fmt.Sprintf("H|%s|%s", typeKey(tv.Type), nf[1][i+1:])] = kind
	}
	e.nonNilElems = map[string]bool{}
	for _, nn := range e.contracts.NonNil {
		p := e.pkgByPath[nn[0]]
		if p == nil {
			continue
		}
		tv, err := types.Eval(fset, p.Types, e.contractPos[nn[0]], nn[1])
		if err != nil || !tv.IsType() {
			e.contracts.Errors = append(e.contracts.Errors, fmt.Sprintf("nonnil-elems %s: cannot resolve type", nn[1]))
			continue
		}
		e.nonNilElems[typeKey(tv.Type)] = true
	}
	return e, nil
}

func (e *Engine) inRepo(path string) bool {
	return path == repoModule || strings.HasPrefix(path, repoModule+"/")
}

func (e *Engine) findFunc(pkg, rel string) *ssa.Function { return e.funcs[pkg+"::"+rel] }

func (e *Engine) contractFor(fn *ssa.Function) *Contract {
	if fn.Pkg == nil {
		if o := fn.Origin(); o != nil && o.Pkg != nil {
			return e.contracts.lookup(o.Pkg.Pkg.Path(), o.RelString(o.Pkg.Pkg))
		}
		return nil
	}
	return e.contracts.lookup(fn.Pkg.Pkg.Path(), fn.RelString(fn.Pkg.Pkg))
}

func (e *Engine) declareGhost(name string, argSorts []string, res string) {
	if _, ok := e.ghostDecl[name]; ok {
		return
	}
	e.ghostDecl[name] = fmt.Sprintf("(declare-fun %s (%s) %s)", name, strings.Join(argSorts, " "), res)
	e.ghostOrd = append(e.ghostOrd, name)
}

func (e *Engine) declareBox(u *Universe, t types.Type) {
	s := u.sortOf(t)
	e.declareGhost(u.structBoxFn(t), []string{s}, "Int")
	e.declareGhost(u.structUnboxFn(t), []string{"Int"}, s)
}

func (e *Engine) derivedFn(kind, key string, arity int) string {
	k := kind + "|" + key
	if n, ok := e.derived[k]; ok {
		return n
	}
	n := e.u.short(kind, key)
	e.derived[k] = n
	args := strings.TrimSpace(strings.Repeat("Int ", arity))
	decl := fmt.Sprintf("(declare-fun %s (%s) Int)", n, args)
	// derived addresses (of a struct element of a slice, of an inner struct field) are injective and live below
	// zero, apart from every allocated reference. Address instructions assume that for the address they
	// compute; contracts read s[i].f and x.inner.f without executing one, so the instance generator adds the
	// same facts for every ground application in a goal and its instances (derivedAddressFacts). No
	// quantified axiom: it would turn every `sat` into `unknown`.
	if kind == "ea" {
		decl += fmt.Sprintf("\n(declare-fun %s!base (Int) Int)\n(declare-fun %s!idx (Int) Int)", n, n)
	}
	if kind == "fa" {
		decl += fmt.Sprintf("\n(declare-fun %s!inv (Int) Int)", n)
	}
	e.ghostDecl[n] = decl
	e.ghostOrd = append(e.ghostOrd, n)
	return n
}

// eaFacts: element addresses are injective and disjoint from allocated refs.
func (e *Engine) eaFacts(elemT types.Type, base, idx string) string {
	n := e.derivedFn("ea", typeKey(elemT), 2)
	t := sx(n, base, idx)
	return and(eq(sx(n+"!base", t), base), eq(sx(n+"!idx", t), idx), sx("<", t, "0"))
}

func (e *Engine) opaqueConst(kind, text string) string {
	k := kind + "|" + text
	if n, ok := e.opaque[k]; ok {
		return n
	}
	n := fmt.Sprintf("opq!%s!%d", kind, len(e.opaque))
	e.opaque[k] = n
	e.ghostDecl[n] = fmt.Sprintf("(declare-const %s Int)", n)
	e.ghostOrd = append(e.ghostOrd, n)
	return n
}

func (e *Engine) funcRef(fn *ssa.Function) string {
	if n, ok := e.funcRefs[fn]; ok {
		return n
	}
	n := fmt.Sprintf("fn!%d", len(e.funcRefs)+1)
	e.funcRefs[fn] = n
	// function values are non-nil and distinct from heap refs (negative)
	e.ghostDecl[n] = fmt.Sprintf("(define-fun %s () Int (- %d))", n, 1000000+len(e.funcRefs))
	e.ghostOrd = append(e.ghostOrd, n)
	return n
}

func (e *Engine) globalRef(g *ssa.Global) string {
	if n, ok := e.globalRefs[g]; ok {
		return n
	}
	n := fmt.Sprintf("glob!%d", len(e.globalRefs)+1)
	e.globalRefs[g] = n
	e.ghostDecl[n] = fmt.Sprintf("(define-fun %s () Int (- %d))", n, 2000000+len(e.globalRefs))
	e.ghostOrd = append(e.ghostOrd, n)
	return n
}

// prelude returns everything that precedes a function's script.
func (e *Engine) prelude() string {
	var b strings.Builder
	b.WriteString(preludeFixed)
	for _, d := range e.u.structDecl {
		b.WriteString(d)
		b.WriteByte('\n')
	}
	b.WriteString("(declare-fun tag-uncomparable (Int) Bool)\n")
	for i, k := range e.u.tagList {
		n := e.u.tags[k]
		b.WriteString(fmt.Sprintf("; tag %d = %s\n", n, k))
		b.WriteString(fmt.Sprintf("(assert (= (tag-kind %d) %d))\n", n, tagKind(e.u.tagTypes[i])))
		if types.Comparable(e.u.tagTypes[i]) {
			b.WriteString(fmt.Sprintf("(assert (not (tag-uncomparable %d)))\n", n))
		} else {
			b.WriteString(fmt.Sprintf("(assert (tag-uncomparable %d))\n", n))
		}
	}
	for _, n := range e.ghostOrd {
		b.WriteString(e.ghostDecl[n])
		b.WriteByte('\n')
	}
	return b.String()
}

// tagAxioms: which registered dynamic types are uncomparable.
func (e *Engine) tagAxioms(tagTypes map[int]types.Type) string {
	var b strings.Builder
	var ids []int
	for n := range tagTypes {
		ids = append(ids, n)
	}
	sort.Ints(ids)
	for _, n := range ids {
		t := tagTypes[n]
		if types.Comparable(t) {
			b.WriteString(fmt.Sprintf("(assert (not (tag-uncomparable %d)))\n", n))
		} else {
			b.WriteString(fmt.Sprintf("(assert (tag-uncomparable %d))\n", n))
		}
	}
	return b.String()
}

// sourceExcerpt gives a short textual label of the expression at pos.
func (e *Engine) sourceExcerpt(pos token.Pos) string {
	if !pos.IsValid() {
		return ""
	}
	p := e.fset.Position(pos)
	f := e.fileOf[p.Filename]
	if f == nil {
		return ""
	}
	path, _ := astutil.PathEnclosingInterval(f, pos, pos)
	for _, n := range path {
		switch x := n.(type) {
		case *ast.IndexExpr, *ast.SliceExpr, *ast.SelectorExpr, *ast.CallExpr, *ast.TypeAssertExpr, *ast.StarExpr, *ast.BinaryExpr, *ast.UnaryExpr, *ast.CompositeLit:
			s := types.ExprString(x.(ast.Expr))
			s = strings.Join(strings.Fields(s), " ")
			if len(s) > 48 {
				s = s[:48] + "~"
			}
			return s
		case ast.Stmt:
			return ""
		}
	}
	return ""
}

// ---------------------------------------------------------------------------
// inferred write sets (family keys a function may write; "*" = anything)

func (e *Engine) modFamilies(fn *ssa.Function) map[string]bool {
	if m, ok := e.modCache[fn]; ok {
		return m
	}
	// fixpoint over the static call graph, computed on demand with a worklist
	visiting := map[*ssa.Function]bool{}
	var visit func(f *ssa.Function) map[string]bool
	visit = func(f *ssa.Function) map[string]bool {
		if m, ok := e.modCache[f]; ok {
			return m
		}
		if visiting[f] {
			return map[string]bool{} // recursion: the cycle's writes are collected by its entry
		}
		if c := e.contractFor(f); c != nil && c.HasMod {
			m := e.contractModKeys(c, f)
			e.modCache[f] = m
			return m
		}
		visiting[f] = true
		m := map[string]bool{}
		for _, b := range f.Blocks {
			for _, ins := range b.Instrs {
				e.instrWrites(f, ins, m, visit)
			}
		}
		delete(visiting, f)
		return m
	}
	m := visit(fn)
	// iterate once more for recursive cycles
	e.modCache[fn] = m
	if c := e.contractFor(fn); c != nil && c.HasMod {
		return m
	}
	m2 := map[string]bool{}
	for _, b := range fn.Blocks {
		for _, ins := range b.Instrs {
			e.instrWrites(fn, ins, m2, func(f *ssa.Function) map[string]bool {
				if f == fn {
					return m
				}
				return visit(f)
			})
		}
	}
	for k := range m2 {
		m[k] = true
	}
	return m
}

// contractModKeys: the families named by an explicit modifies clause.
func (e *Engine) contractModKeys(c *Contract, fn *ssa.Function) map[string]bool {
	m := map[string]bool{}
	fv := e.newFV(fn, c, nil)
	fv.wm0 = "wm!0"
	st := &State{reach: "true", cells: map[*ssa.Alloc]string{}, heap: map[string]string{}, iters: map[ssa.Value]string{}, lock: map[string]string{}, wm: "wm!0"}
	ctx := fv.newSpecCtx(fv.pkgTypes(), st, nil)
	for _, p := range fn.Params {
		ctx.vars[p.Name()] = SVal{"p_" + sanitize(p.Name()), p.Type()}
	}
	ctx.cellVars = map[string]SVal{}
	for _, f := range fn.FreeVars {
		ctx.cellVars[f.Name()] = SVal{"fv_" + sanitize(f.Name()), f.Type()}
	}
	items, err := fv.modItems(ctx, c.Modifies)
	if err != nil {
		m["*"] = true
		return m
	}
	for _, it := range items {
		if it.all {
			m["*"] = true
		}
		if it.fam != nil {
			m[it.fam.Key] = true
		}
	}
	return m
}

func addFieldKeys(m map[string]bool, structT types.Type) {
	st, ok := structT.Underlying().(*types.Struct)
	if !ok {
		return
	}
	for i := 0; i < st.NumFields(); i++ {
		if _, inner := st.Field(i).Type().Underlying().(*types.Struct); inner {
			addFieldKeys(m, st.Field(i).Type())
			continue
		}
		m[fmt.Sprintf("H|%s|%s", typeKey(structT), st.Field(i).Name())] = true
	}
}

func (e *Engine) storeKeys(addr ssa.Value, m map[string]bool) {
	switch a := addr.(type) {
	case *ssa.Alloc:
		elem := a.Type().Underlying().(*types.Pointer).Elem()
		if _, ok := elem.Underlying().(*types.Struct); ok {
			return // fresh struct object
		}
		if a.Heap {
			// captured variable cell: allocated here (fresh) – callers cannot see it,
			// but closures of this function can; treated as fresh
			return
		}
		return
	case *ssa.FieldAddr:
		if _, fresh := a.X.(*ssa.Alloc); fresh {
			return // field of an object allocated by this function
		}
		structT := a.X.Type().Underlying().(*types.Pointer).Elem()
		st := structT.Underlying().(*types.Struct)
		ft := st.Field(a.Field).Type()
		if _, inner := ft.Underlying().(*types.Struct); inner {
			addFieldKeys(m, ft)
			return
		}
		m[fmt.Sprintf("H|%s|%s", typeKey(structT), st.Field(a.Field).Name())] = true
	case *ssa.IndexAddr:
		switch tt := a.X.Type().Underlying().(type) {
		case *types.Slice:
			if _, ok := tt.Elem().Underlying().(*types.Struct); ok {
				addFieldKeys(m, tt.Elem())
				return
			}
			m["SE|"+typeKey(tt.Elem())] = true
		case *types.Pointer:
			if arr, ok := tt.Elem().Underlying().(*types.Array); ok {
				if _, isAlloc := a.X.(*ssa.Alloc); isAlloc {
					return // local array (varargs)
				}
				m["SE|"+typeKey(arr.Elem())] = true
			}
		}
	case *ssa.Global:
		t := a.Type().(*types.Pointer).Elem()
		if _, ok := t.Underlying().(*types.Struct); ok {
			addFieldKeys(m, t)
			return
		}
		m["G|"+a.Pkg.Pkg.Path()+"."+a.Name()] = true
	default:
		// store through a pointer value
		elem := addr.Type().Underlying().(*types.Pointer).Elem()
		if _, ok := elem.Underlying().(*types.Struct); ok {
			addFieldKeys(m, elem)
			return
		}
		m["C|"+typeKey(elem)] = true
	}
}

var externalMutators = map[string]bool{
	"sort.Slice": true, "sort.Strings": true, "sort.Ints": true, "sort.SliceStable": true, "sort.Sort": true, "sort.Stable": true,
}

func (e *Engine) instrWrites(f *ssa.Function, ins ssa.Instruction, m map[string]bool, visit func(*ssa.Function) map[string]bool) {
	switch x := ins.(type) {
	case *ssa.Store:
		e.storeKeys(x.Addr, m)
	case *ssa.MapUpdate:
		k := mapKey(x.Map.Type())
		m["MD|"+k], m["MV|"+k], m["MC|"+k] = true, true, true
	case *ssa.MakeClosure:
		for k := range visit(x.Fn.(*ssa.Function)) {
			m[k] = true
		}
	case ssa.CallInstruction:
		cc := x.Common()
		if cc.IsInvoke() {
			if named, ok := cc.Value.Type().(*types.Named); ok && named.Obj().Pkg() != nil && !e.inRepo(named.Obj().Pkg().Path()) {
				if c := e.contracts.lookup(named.Obj().Pkg().Path(), named.Obj().Name()+"."+cc.Method.Name()); c != nil && c.HasMod {
					for _, it := range c.Modifies {
						t := strings.TrimSpace(it.Text)
						if strings.HasPrefix(t, "global(") {
							name := strings.TrimSuffix(strings.TrimPrefix(t, "global("), ")")
							if i := strings.LastIndex(name, "."); i >= 0 {
								name = name[i+1:]
							}
							m["G|"+c.DeclPkg+"."+name] = true
						}
					}
				}
				return
			}
			if named, ok := cc.Value.Type().(*types.Named); ok && named.Obj().Pkg() != nil && e.inRepo(named.Obj().Pkg().Path()) {
				if c := e.contracts.lookup(named.Obj().Pkg().Path(), named.Obj().Name()+"."+cc.Method.Name()); c != nil && c.HasMod {
					for k := range e.ifaceModKeys(c, named, cc.Method.Name()) {
						m[k] = true
					}
					return
				}
				// union over the repo's implementations; foreign implementations are assumed to stay within it
				for _, impl := range e.implementations(named, cc.Method.Name()) {
					for k := range visit(impl) {
						m[k] = true
					}
				}
			}
			return
		}
		switch callee := cc.Value.(type) {
		case *ssa.Builtin:
			switch callee.Name() {
			case "append", "copy":
				if sl, ok := cc.Args[0].Type().Underlying().(*types.Slice); ok {
					if _, isSt := sl.Elem().Underlying().(*types.Struct); isSt {
						addFieldKeys(m, sl.Elem())
					} else {
						m["SE|"+typeKey(sl.Elem())] = true
					}
				}
			case "delete":
				k := mapKey(cc.Args[0].Type())
				m["MD|"+k], m["MC|"+k] = true, true
			}
		case *ssa.Function:
			name := originName(callee)
			if name == repoModule+"/common.AsyncMapReduce" {
				return // effects are those of the closures passed (collected at their MakeClosure)
			}
			if callee.Pkg != nil && e.inRepo(callee.Pkg.Pkg.Path()) || callee.Parent() != nil || (callee.Origin() != nil && callee.Origin().Pkg != nil && e.inRepo(callee.Origin().Pkg.Pkg.Path())) {
				for k := range visit(callee) {
					m[k] = true
				}
				return
			}
			if externalMutators[name] {
				for _, a := range cc.Args {
					if sl, ok := a.Type().Underlying().(*types.Slice); ok {
						m["SE|"+typeKey(sl.Elem())] = true
					}
				}
			}
			// pointer arguments to external functions (json.Unmarshal(&x), ...)
			for _, a := range cc.Args {
				if mi, ok := a.(*ssa.MakeInterface); ok {
					a = mi.X
				}
				if _, ok := a.Type().Underlying().(*types.Pointer); ok {
					switch a.(type) {
					case *ssa.Alloc:
					default:
						e.storeKeys(a, m)
					}
				}
			}
		case *ssa.MakeClosure:
			for k := range visit(callee.Fn.(*ssa.Function)) {
				m[k] = true
			}
		default:
			// dynamic call: a contract on the named function type (callback) bounds its effects
			if named, ok := cc.Value.Type().(*types.Named); ok && named.Obj().Pkg() != nil {
				if c := e.contracts.lookup(named.Obj().Pkg().Path(), named.Obj().Name()); c != nil && c.HasMod {
					ok := true
					for _, it := range c.Modifies {
						if t := strings.TrimSpace(it.Text); t != "fresh" && t != "ghost" {
							ok = false
						}
					}
					if ok {
						return
					}
				}
			}
			m["*"] = true // dynamic call
		}
	case *ssa.Go, *ssa.Select:
		m["*"] = true
	}
}

// ifaceModKeys: families named by the modifies clause of an interface-method contract
// (only type-level items make sense there: all(T.f), elems(T), entries(T), fresh).
func (e *Engine) ifaceModKeys(c *Contract, named *types.Named, method string) map[string]bool {
	m := map[string]bool{}
	impls := e.implementations(named, method)
	if len(impls) == 0 {
		m["*"] = true
		return m
	}
	fv := e.newFV(impls[0], nil, nil)
	fv.wm0 = "wm!0"
	st := &State{reach: "true", cells: map[*ssa.Alloc]string{}, heap: map[string]string{}, iters: map[ssa.Value]string{}, lock: map[string]string{}, wm: "wm!0"}
	ctx := fv.newSpecCtx(named.Obj().Pkg(), st, nil)
	items, err := fv.modItems(ctx, c.Modifies)
	if err != nil {
		m["*"] = true
		return m
	}
	for _, it := range items {
		if it.all {
			m["*"] = true
		}
		if it.fam != nil {
			m[it.fam.Key] = true
		}
	}
	return m
}

func (e *Engine) implementations(iface *types.Named, method string) []*ssa.Function {
	key := typeKey(iface) + "." + method
	if r, ok := e.implCache[key]; ok {
		return r
	}
	it, ok := iface.Underlying().(*types.Interface)
	var res []*ssa.Function
	if ok {
		for _, p := range e.pkgs {
			if !e.inRepo(p.PkgPath) {
				continue
			}
			sc := p.Types.Scope()
			for _, n := range sc.Names() {
				tn, ok := sc.Lookup(n).(*types.TypeName)
				if !ok {
					continue
				}
				for _, t := range []types.Type{tn.Type(), types.NewPointer(tn.Type())} {
					if types.IsInterface(t) {
						continue
					}
					if types.Implements(t, it) {
						ms := e.prog.MethodSets.MethodSet(t)
						if sel := ms.Lookup(p.Types, method); sel != nil {
							if fn := e.prog.MethodValue(sel); fn != nil {
								res = append(res, fn)
							}
						}
					}
				}
			}
		}
	}
	e.implCache[key] = res
	return res
}

// materialise creates (in fv) the family denoted by a key produced by the write inference.
func (e *Engine) materialise(fv *FV, key string) {
	parts := strings.SplitN(key, "|", 3)
	switch parts[0] {
	case "H":
		if t := e.typeByKey(parts[1]); t != nil {
			if st, ok := t.Underlying().(*types.Struct); ok {
				for i := 0; i < st.NumFields(); i++ {
					if st.Field(i).Name() == parts[2] {
						fv.fieldFam(t, i)
					}
				}
			}
		}
	case "SE":
		if t := e.typeByKey(parts[1]); t != nil {
			fv.elemFam(t)
		}
	case "C":
		if t := e.typeByKey(parts[1]); t != nil {
			fv.cellFam(t)
		}
	}
}

var typeKeyCache map[string]types.Type

func (e *Engine) typeByKey(key string) types.Type {
	if typeKeyCache == nil {
		typeKeyCache = map[string]types.Type{}
		for _, fn := range e.allFuncs {
			for _, b := range fn.Blocks {
				for _, ins := range b.Instrs {
					if v, ok := ins.(ssa.Value); ok {
						recordTypes(v.Type())
					}
				}
			}
		}
	}
	return typeKeyCache[key]
}

func recordTypes(t types.Type) {
	k := typeKey(t)
	if _, ok := typeKeyCache[k]; ok {
		return
	}
	typeKeyCache[k] = t
	switch tt := t.(type) {
	case *types.Pointer:
		recordTypes(tt.Elem())
	case *types.Slice:
		recordTypes(tt.Elem())
	case *types.Map:
		recordTypes(tt.Key())
		recordTypes(tt.Elem())
	case *types.Tuple:
		for i := 0; i < tt.Len(); i++ {
			recordTypes(tt.At(i).Type())
		}
	case *types.Named:
		if st, ok := tt.Underlying().(*types.Struct); ok {
			for i := 0; i < st.NumFields(); i++ {
				recordTypes(st.Field(i).Type())
			}
		} else {
			recordTypes(tt.Underlying())
		}
	}
}
