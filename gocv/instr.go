package main

import (
	"fmt"
	"go/constant"
	"go/token"
	"go/types"
	"strings"

	"golang.org/x/tools/go/ssa"
)

// ---------------------------------------------------------------------------
// values

func (fv *FV) constTerm(c *ssa.Const) string {
	t := c.Type()
	if c.Value == nil {
		return fv.u.zero(t)
	}
	switch c.Value.Kind() {
	case constant.Bool:
		if constant.BoolVal(c.Value) {
			return "true"
		}
		return "false"
	case constant.String:
		return strLit(constant.StringVal(c.Value))
	case constant.Int:
		if n, ok := constant.Int64Val(c.Value); ok {
			if b, ok := t.Underlying().(*types.Basic); ok && b.Info()&types.IsFloat != 0 {
				return fv.opaqueConst("f", c.Value.ExactString())
			}
			return intLit(n)
		}
		return fv.opaqueConst("big", c.Value.ExactString())
	case constant.Float, constant.Complex:
		return fv.opaqueConst("f", c.Value.ExactString())
	}
	return fv.u.zero(t)
}

func (fv *FV) opaqueConst(kind, text string) string {
	return fv.eng.opaqueConst(kind, text)
}

func (fv *FV) val(st *State, v ssa.Value) string {
	switch x := v.(type) {
	case *ssa.Const:
		return fv.constTerm(x)
	case *ssa.Function:
		return fv.eng.funcRef(x)
	case *ssa.Global:
		return fv.eng.globalRef(x)
	case *ssa.Builtin:
		return "0"
	}
	if t, ok := fv.vals[v]; ok {
		return t
	}
	// value not computed (unsupported producer): arbitrary
	c := fv.freshConst("undef", fv.u.sortOf(v.Type()))
	fv.vals[v] = c
	fv.noteUnsupported("use of unmodelled value " + v.Name())
	return c
}

func (fv *FV) noteUnsupported(s string) {
	for _, x := range fv.unsupported {
		if x == s {
			return
		}
	}
	fv.unsupported = append(fv.unsupported, s)
}

func (fv *FV) setVal(v ssa.Value, t string) { fv.vals[v] = t }

// bind introduces a named constant for an SSA value (keeps terms small).
func (fv *FV) bind(st *State, v ssa.Value, term string) string {
	srt := fv.u.sortOf(v.Type())
	c := fv.fresh(sanitize(v.Name()))
	fv.emit(fmt.Sprintf("(define-fun %s () %s %s)", c, srt, term))
	fv.vals[v] = c
	return c
}

func (fv *FV) bindFresh(st *State, v ssa.Value) string {
	c := fv.freshConst(sanitize(v.Name()), fv.u.sortOf(v.Type()))
	fv.vals[v] = c
	fv.assume(st, fv.valid(c, v.Type(), st.wm))
	return c
}

// ---------------------------------------------------------------------------
// locations

func (fv *FV) derefType(v ssa.Value) types.Type {
	return v.Type().Underlying().(*types.Pointer).Elem()
}

func (fv *FV) locOf(st *State, v ssa.Value) *Loc {
	if l, ok := fv.ptrs[v]; ok {
		return l
	}
	if g, ok := v.(*ssa.Global); ok {
		t := g.Type().(*types.Pointer).Elem()
		if _, isSt := t.Underlying().(*types.Struct); isSt {
			return &Loc{structRef: fv.eng.globalRef(g), ty: t}
		}
		f := fv.globalFam(g)
		return &Loc{fam: f.Key, ty: t}
	}
	elem := fv.derefType(v)
	p := fv.val(st, v)
	if _, ok := elem.Underlying().(*types.Struct); ok {
		return &Loc{structRef: p, ty: elem, nilCheck: p}
	}
	if _, ok := elem.Underlying().(*types.Array); ok {
		return &Loc{structRef: p, ty: elem, nilCheck: p}
	}
	f := fv.cellFam(elem)
	return &Loc{fam: f.Key, args: []string{p}, ty: elem, nilCheck: p}
}

func (fv *FV) nilOblige(st *State, l *Loc, what string, pos token.Pos) {
	if l.nilCheck != "" && l.nilCheck != "0" {
		fv.oblige(st, "nil", what, sx("distinct", l.nilCheck, "0"), pos, nil)
	}
}

func (fv *FV) loadLoc(st *State, l *Loc) string {
	if l.reg != nil {
		if t, ok := st.cells[l.reg]; ok {
			return t
		}
		z := fv.u.zero(l.ty)
		st.cells[l.reg] = z
		return z
	}
	if l.structRef != "" {
		if stt, ok := l.ty.Underlying().(*types.Struct); ok {
			return fv.loadStruct(st, l.structRef, l.ty, stt)
		}
		return fv.freshConst("arr", "Int")
	}
	f := fv.fams[l.fam]
	t := fv.read(st, f, l.args...)
	if kind, ok := fv.eng.nonNilFields[l.fam]; ok {
		fv.assume(st, fv.nonNilTerm(t, l.ty))
		fv.used("field invariant (" + kind + "): " + l.fam[2:] + " is never nil")
	}
	if strings.HasPrefix(l.fam, "SE|") && fv.eng.nonNilElems[l.fam[3:]] && !l.localArray {
		fv.assume(st, sx("distinct", t, "0"))
		fv.used("element type invariant: in-bounds elements of []" + l.fam[3:] + " are non-nil (checked at every store)")
	}
	return t
}

func (fv *FV) storeLoc(st *State, l *Loc, val string) {
	if l.reg != nil {
		st.cells[l.reg] = val
		return
	}
	if l.structRef != "" {
		if stt, ok := l.ty.Underlying().(*types.Struct); ok {
			fv.storeStruct(st, l.structRef, l.ty, stt, val)
		}
		return
	}
	f := fv.fams[l.fam]
	fv.frameCheck(st, f, l.args, "store")
	if fv.eng.nonNilFields[l.fam] == "checked" {
		pos := token.NoPos
		if fv.curInstr != nil {
			pos = fv.curInstr.Pos()
		}
		fv.oblige(st, "nonnil-field", fv.srcLabel(pos, "store"), fv.nonNilTerm(val, l.ty), pos, nil)
	}
	if strings.HasPrefix(l.fam, "SE|") && fv.eng.nonNilElems[l.fam[3:]] {
		pos := token.NoPos
		if fv.curInstr != nil {
			pos = fv.curInstr.Pos()
		}
		fv.oblige(st, "nonnil-elem", fv.srcLabel(pos, "store"), sx("distinct", val, "0"), pos, nil)
	}
	fv.write(st, f, l.args, val)
}

func (fv *FV) faRef(structT types.Type, idx int, r string) string {
	st := structT.Underlying().(*types.Struct)
	name := fv.eng.derivedFn("fa", typeKey(structT)+"."+st.Field(idx).Name(), 1)
	t := sx(name, r)
	fv.rootOf[t] = r
	return t
}

func (fv *FV) eaRef(elemT types.Type, base, idx string) string {
	name := fv.eng.derivedFn("ea", typeKey(elemT), 2)
	t := sx(name, base, idx)
	fv.rootOf[t] = base
	return t
}

func (fv *FV) loadField(st *State, r string, structT types.Type, idx int) string {
	stt := structT.Underlying().(*types.Struct)
	ft := stt.Field(idx).Type()
	if inner, ok := ft.Underlying().(*types.Struct); ok {
		return fv.loadStruct(st, fv.faRef(structT, idx, r), ft, inner)
	}
	return fv.read(st, fv.fieldFam(structT, idx), r)
}

func (fv *FV) loadStruct(st *State, r string, t types.Type, stt *types.Struct) string {
	s := fv.u.sortOf(t)
	if stt.NumFields() == 0 {
		return "mk-" + s
	}
	var fs []string
	for i := 0; i < stt.NumFields(); i++ {
		fs = append(fs, fv.loadField(st, r, t, i))
	}
	return sx("mk-"+s, fs...)
}

func (fv *FV) storeStruct(st *State, r string, t types.Type, stt *types.Struct, val string) {
	s := fv.u.sortOf(t)
	for i := 0; i < stt.NumFields(); i++ {
		ft := stt.Field(i).Type()
		fval := sx(fmt.Sprintf("%s.%d", s, i), val)
		if inner, ok := ft.Underlying().(*types.Struct); ok {
			fv.storeStruct(st, fv.faRef(t, i, r), ft, inner, fval)
			continue
		}
		f := fv.fieldFam(t, i)
		fv.frameCheck(st, f, []string{r}, "store")
		fv.write(st, f, []string{r}, fval)
	}
}

// ---------------------------------------------------------------------------
// instruction excerpt labels (stable under line shifts)

func (fv *FV) srcLabel(pos token.Pos, fallback string) string {
	if s := fv.eng.sourceExcerpt(pos); s != "" {
		return s
	}
	return fallback
}

// ---------------------------------------------------------------------------
// the instruction interpreter

func (fv *FV) exec(st *State, ins ssa.Instruction) {
	fv.curInstr = ins
	u := fv.u
	switch x := ins.(type) {
	case *ssa.DebugRef:
		return
	case *ssa.Alloc:
		fv.execAlloc(st, x)
	case *ssa.Store:
		l := fv.locOf(st, x.Addr)
		fv.nilOblige(st, l, "*"+x.Addr.Name(), x.Pos())
		fv.storeLoc(st, l, fv.val(st, x.Val))
	case *ssa.UnOp:
		switch x.Op {
		case token.MUL:
			l := fv.locOf(st, x.X)
			fv.nilOblige(st, l, fv.srcLabel(x.Pos(), "*"+x.X.Name()), x.Pos())
			t := fv.loadLoc(st, l)
			c := fv.bind(st, x, t)
			if gi, ok := fv.eng.guarded[l.fam]; ok && len(l.args) == 1 {
				fv.guardOf[c] = fv.faRef(gi.structT, gi.mutexIdx, l.args[0])
			}
			if l.reg == nil {
				fv.assume(st, fv.valid(c, x.Type(), st.wm))
			}
		case token.NOT:
			fv.bind(st, x, not(fv.val(st, x.X)))
		case token.SUB:
			fv.bind(st, x, sx("-", fv.val(st, x.X)))
		case token.ARROW:
			fv.noteUnsupported("channel receive")
			if tup, ok := x.Type().(*types.Tuple); ok {
				var ts []string
				for i := 0; i < tup.Len(); i++ {
					c := fv.freshConst("recv", u.sortOf(tup.At(i).Type()))
					fv.assume(st, fv.valid(c, tup.At(i).Type(), st.wm))
					ts = append(ts, c)
				}
				fv.tuples[x] = ts
			} else {
				fv.bindFresh(st, x)
			}
		default:
			fv.bindFresh(st, x)
		}
	case *ssa.BinOp:
		fv.execBinOp(st, x)
	case *ssa.ChangeInterface:
		fv.setVal(x, fv.val(st, x.X))
	case *ssa.ChangeType:
		fv.setVal(x, fv.convStruct(fv.val(st, x.X), x.X.Type(), x.Type()))
		if l, ok := fv.ptrs[x.X]; ok {
			fv.ptrs[x] = l
		}
	case *ssa.Convert:
		fv.execConvert(st, x)
	case *ssa.MakeInterface:
		fv.bind(st, x, u.box(fv.val(st, x.X), x.X.Type()))
		if _, ok := x.X.Type().Underlying().(*types.Struct); ok {
			// unbox(box(v)) = v
			v := fv.val(st, x.X)
			fv.eng.declareBox(u, x.X.Type())
			fv.assume(st, eq(sx(u.structUnboxFn(x.X.Type()), sx(u.structBoxFn(x.X.Type()), v)), v))
		}
	case *ssa.Extract:
		ts := fv.tuples[x.Tuple]
		if ts == nil {
			fv.bindFresh(st, x)
			fv.noteUnsupported("extract from unmodelled tuple")
		} else {
			fv.setVal(x, ts[x.Index])
		}
	case *ssa.Field:
		s := u.sortOf(x.X.Type())
		fv.bind(st, x, sx(fmt.Sprintf("%s.%d", s, x.Field), fv.val(st, x.X)))
	case *ssa.FieldAddr:
		fv.execFieldAddr(st, x)
	case *ssa.IndexAddr:
		fv.execIndexAddr(st, x)
	case *ssa.Index:
		fv.execIndex(st, x)
	case *ssa.Lookup:
		fv.execLookup(st, x)
	case *ssa.MapUpdate:
		fv.execMapUpdate(st, x)
	case *ssa.MakeMap:
		r := fv.alloc(st)
		dom, _, card := fv.mapFams(x.Type())
		// fresh map: empty
		ps, names := famParams(dom)
		_ = ps
		fv.writeWhere(st, dom, eq(names[0], r), "false")
		fv.write(st, card, []string{r}, "0")
		fv.setVal(x, r)
	case *ssa.MakeSlice:
		fv.execMakeSlice(st, x)
	case *ssa.MakeChan:
		fv.setVal(x, fv.alloc(st))
	case *ssa.MakeClosure:
		r := fv.alloc(st)
		fv.setVal(x, r)
		fv.closures[x] = x
	case *ssa.Slice:
		fv.execSlice(st, x)
	case *ssa.TypeAssert:
		fv.execTypeAssert(st, x)
	case *ssa.Range:
		fv.execRange(st, x)
	case *ssa.Next:
		fv.execNext(st, x)
	case *ssa.Phi:
		fv.execPhi(st, x)
	case *ssa.Call:
		fv.execCall(st, x, x)
	case *ssa.Defer:
		found := false
		for _, d := range fv.deferred {
			if d == x {
				found = true
			}
		}
		if !found {
			fv.deferred = append(fv.deferred, x)
		}
		if st.armed == nil {
			st.armed = map[*ssa.Defer]string{}
		}
		st.armed[x] = "true"
	case *ssa.RunDefers:
		fv.execRunDefers(st)
	case *ssa.Go:
		fv.noteUnsupported("go statement (concurrency dropped)")
		fv.havocAll(st, "go statement")
	case *ssa.Send:
		fv.noteUnsupported("channel send")
	case *ssa.Select:
		fv.noteUnsupported("select")
		if tup, ok := x.Type().(*types.Tuple); ok {
			var ts []string
			for i := 0; i < tup.Len(); i++ {
				c := fv.freshConst("sel", u.sortOf(tup.At(i).Type()))
				fv.assume(st, fv.valid(c, tup.At(i).Type(), st.wm))
				ts = append(ts, c)
			}
			fv.tuples[x] = ts
		}
		fv.havocAll(st, "select")
	case *ssa.Panic:
		fv.oblige(st, "panic", fv.srcLabel(x.Pos(), "panic"), "false", x.Pos(), nil)
		st.dead = true
	case *ssa.Return, *ssa.If, *ssa.Jump:
		// handled by the block driver
	default:
		fv.noteUnsupported(fmt.Sprintf("instruction %T", ins))
		if v, ok := ins.(ssa.Value); ok {
			fv.bindFresh(st, v)
		}
	}
}

func (fv *FV) execAlloc(st *State, x *ssa.Alloc) {
	elem := fv.derefType(x)
	switch tt := elem.Underlying().(type) {
	case *types.Struct:
		r := fv.allocT(st, refTag(types.NewPointer(elem)))
		fv.setVal(x, r)
		fv.zeroStruct(st, r, elem, tt)
		fv.structInitCheck(st, x, elem, tt)
		return
	case *types.Array:
		r := fv.alloc(st)
		fv.setVal(x, r)
		f := fv.elemFam(tt.Elem())
		_, names := famParams(f)
		fv.writeWhere(st, f, eq(names[0], r), fv.u.zero(tt.Elem()))
		return
	}
	if !x.Heap {
		st.cells[x] = fv.u.zero(elem)
		fv.ptrs[x] = &Loc{reg: x, ty: elem}
		return
	}
	r := fv.alloc(st)
	fv.setVal(x, r)
	f := fv.cellFam(elem)
	fv.write(st, f, []string{r}, fv.u.zero(elem))
	fv.ptrs[x] = &Loc{fam: f.Key, args: []string{r}, ty: elem}
}

func (fv *FV) nonNilTerm(t string, ty types.Type) string {
	switch ty.Underlying().(type) {
	case *types.Interface:
		return not(eq(t, "any-nil"))
	case *types.Slice:
		return sx("distinct", sx("s-base", t), "0")
	}
	return sx("distinct", t, "0")
}

// structInitCheck: a struct with checked non-nil fields must have them assigned in the
// block that allocates it (composite literal), otherwise the invariant could be broken
// by the zero value.
func (fv *FV) structInitCheck(st *State, x *ssa.Alloc, t types.Type, stt *types.Struct) {
	// a whole-struct store right after the allocation (parameter copy, *p = v) initialises every field
	for _, ins := range x.Block().Instrs {
		if s, ok := ins.(*ssa.Store); ok && s.Addr == x {
			return
		}
	}
	for i := 0; i < stt.NumFields(); i++ {
		key := fmt.Sprintf("H|%s|%s", typeKey(t), stt.Field(i).Name())
		if fv.eng.nonNilFields[key] != "checked" {
			continue
		}
		found := false
		for _, ins := range x.Block().Instrs {
			if s, ok := ins.(*ssa.Store); ok {
				if fa, ok := s.Addr.(*ssa.FieldAddr); ok && fa.X == x && fa.Field == i {
					found = true
				}
			}
		}
		if !found {
			fv.obligeNoAssume(st, "nonnil-field", "allocation of "+shorten(t.String())+" without "+stt.Field(i).Name(), "false", x.Pos(), nil)
		}
	}
}

func (fv *FV) zeroStruct(st *State, r string, t types.Type, stt *types.Struct) {
	for i := 0; i < stt.NumFields(); i++ {
		ft := stt.Field(i).Type()
		if inner, ok := ft.Underlying().(*types.Struct); ok {
			fv.zeroStruct(st, fv.faRef(t, i, r), ft, inner)
			continue
		}
		fv.write(st, fv.fieldFam(t, i), []string{r}, fv.u.zero(ft))
	}
}

func isString(t types.Type) bool {
	b, ok := t.Underlying().(*types.Basic)
	return ok && b.Info()&types.IsString != 0
}
func isFloat(t types.Type) bool {
	b, ok := t.Underlying().(*types.Basic)
	return ok && b.Info()&(types.IsFloat|types.IsComplex) != 0
}
func isInteger(t types.Type) bool {
	b, ok := t.Underlying().(*types.Basic)
	return ok && b.Info()&types.IsInteger != 0
}
func isInterface(t types.Type) bool {
	_, ok := t.Underlying().(*types.Interface)
	return ok
}

func (fv *FV) execBinOp(st *State, x *ssa.BinOp) {
	a, b := fv.val(st, x.X), fv.val(st, x.Y)
	t := x.X.Type()
	switch x.Op {
	case token.EQL, token.NEQ:
		var r string
		if isInterface(t) || isInterface(x.Y.Type()) {
			// comparing interface values: panics when both hold the same uncomparable dynamic type
			if !isInterface(t) {
				a = fv.u.box(a, t)
			}
			if !isInterface(x.Y.Type()) {
				b = fv.u.box(b, x.Y.Type())
			}
			_, xc := x.X.(*ssa.Const)
			_, yc := x.Y.(*ssa.Const)
			if !xc && !yc {
				unc := func(v string) string {
					return or(sx("(_ is any-slice)", v), and(sx("(_ is any-ref)", v), sx("tag-uncomparable", sx("a-rtag", v))), and(sx("(_ is any-opq)", v), sx("tag-uncomparable", sx("a-otag", v))))
				}
				fv.oblige(st, "uncomparable", fv.srcLabel(x.Pos(), x.Name()), not(and(eq(sx("any-tag", a), sx("any-tag", b)), unc(a))), x.Pos(), nil)
			}
			r = eq(a, b)
		} else if _, ok := t.Underlying().(*types.Slice); ok {
			// only slice == nil is legal
			if c, ok := x.Y.(*ssa.Const); ok && c.Value == nil {
				r = eq(sx("s-base", a), "0")
			} else {
				r = eq(sx("s-base", b), "0")
			}
		} else {
			r = eq(a, b)
		}
		if x.Op == token.NEQ {
			r = not(r)
		}
		fv.bind(st, x, r)
	case token.LSS, token.LEQ, token.GTR, token.GEQ:
		if isString(t) {
			switch x.Op {
			case token.LSS:
				fv.bind(st, x, sx("str.<", a, b))
			case token.LEQ:
				fv.bind(st, x, sx("str.<=", a, b))
			case token.GTR:
				fv.bind(st, x, sx("str.<", b, a))
			default:
				fv.bind(st, x, sx("str.<=", b, a))
			}
			return
		}
		if isFloat(t) {
			fv.bindFresh(st, x)
			return
		}
		op := map[token.Token]string{token.LSS: "<", token.LEQ: "<=", token.GTR: ">", token.GEQ: ">="}[x.Op]
		fv.bind(st, x, sx(op, a, b))
	case token.ADD:
		if isString(t) {
			fv.bind(st, x, sx("str.++", a, b))
			return
		}
		if isFloat(t) {
			fv.bindFresh(st, x)
			return
		}
		fv.bind(st, x, sx("+", a, b))
	case token.SUB:
		if isFloat(t) {
			fv.bindFresh(st, x)
			return
		}
		fv.bind(st, x, sx("-", a, b))
	case token.MUL:
		if isFloat(t) {
			fv.bindFresh(st, x)
			return
		}
		fv.bind(st, x, sx("*", a, b))
	case token.QUO:
		if isFloat(t) {
			fv.bindFresh(st, x)
			return
		}
		fv.oblige(st, "div0", fv.srcLabel(x.Pos(), x.Name()), sx("distinct", b, "0"), x.Pos(), nil)
		fv.bind(st, x, sx("go-div", a, b))
	case token.REM:
		fv.oblige(st, "div0", fv.srcLabel(x.Pos(), x.Name()), sx("distinct", b, "0"), x.Pos(), nil)
		fv.bind(st, x, sx("go-mod", a, b))
	default:
		// shifts and bit operations: uninterpreted
		c := fv.bindFresh(st, x)
		_ = c
	}
}

func (fv *FV) execConvert(st *State, x *ssa.Convert) {
	from, to := x.X.Type(), x.Type()
	v := fv.val(st, x.X)
	switch {
	case isInteger(from) && isInteger(to):
		fb := from.Underlying().(*types.Basic)
		tb := to.Underlying().(*types.Basic)
		if fv.eng.sizes.Sizeof(tb) >= fv.eng.sizes.Sizeof(fb) && (tb.Info()&types.IsUnsigned == fb.Info()&types.IsUnsigned) {
			fv.setVal(x, v)
		} else if _, isConst := x.X.(*ssa.Const); isConst {
			fv.setVal(x, v)
		} else {
			// narrowing or sign change: value preserved when in range (assumed mathematical)
			fv.setVal(x, v)
			fv.assumptionsUsed["integer conversion treated as value-preserving"] = true
		}
	case isString(from) && isString(to):
		fv.setVal(x, v)
	case isString(to) && isInteger(from):
		fv.bind(st, x, sx("str.from_code", v))
	case isString(to):
		// []byte / []rune -> string
		c := fv.bindFresh(st, x)
		if sl, ok := from.Underlying().(*types.Slice); ok && isInteger(sl.Elem()) && fv.eng.sizes.Sizeof(sl.Elem()) == 1 {
			fv.assume(st, eq(sx("str.len", c), sx("s-len", v)))
		}
	case isString(from):
		// string -> []byte
		r := fv.alloc(st)
		n := sx("str.len", v)
		sl := sx("mk-slice", r, "0", n, n)
		fv.bind(st, x, sl)
		if s, ok := to.Underlying().(*types.Slice); ok && fv.eng.sizes.Sizeof(s.Elem()) == 1 {
			f := fv.elemFam(s.Elem())
			_, names := famParams(f)
			fv.writeWhere(st, f, and(eq(names[0], r), sx("<=", "0", names[1]), sx("<", names[1], n)), sx("str.to_code", sx("str.at", v, names[1])))
		}
	default:
		if fv.u.sortOf(from) == fv.u.sortOf(to) && !isFloat(from) && !isFloat(to) {
			fv.setVal(x, v)
		} else if _, ok := from.Underlying().(*types.Struct); ok {
			fv.setVal(x, fv.convStruct(v, from, to))
		} else {
			fv.bindFresh(st, x)
		}
	}
}

// convStruct converts a struct value between two named types with identical underlying types.
func (fv *FV) convStruct(v string, from, to types.Type) string {
	fs, ok1 := from.Underlying().(*types.Struct)
	ts, ok2 := to.Underlying().(*types.Struct)
	if !ok1 || !ok2 {
		return v
	}
	sf, stt := fv.u.sortOf(from), fv.u.sortOf(to)
	if sf == stt {
		return v
	}
	if ts.NumFields() == 0 {
		return "mk-" + stt
	}
	var args []string
	for i := 0; i < ts.NumFields() && i < fs.NumFields(); i++ {
		args = append(args, fv.convStruct(sx(fmt.Sprintf("%s.%d", sf, i), v), fs.Field(i).Type(), ts.Field(i).Type()))
	}
	return sx("mk-"+stt, args...)
}

func (fv *FV) execFieldAddr(st *State, x *ssa.FieldAddr) {
	structT := fv.derefType(x.X)
	stt := structT.Underlying().(*types.Struct)
	var r string
	if l, ok := fv.ptrs[x.X]; ok && l.structRef != "" {
		r = l.structRef
	} else {
		r = fv.val(st, x.X)
		if _, isAlloc := x.X.(*ssa.Alloc); !isAlloc {
			fv.oblige(st, "nil", fv.srcLabel(x.Pos(), x.X.Name()+"."+stt.Field(x.Field).Name()), sx("distinct", r, "0"), x.Pos(), nil)
		}
	}
	ft := stt.Field(x.Field).Type()
	switch ft.Underlying().(type) {
	case *types.Struct:
		d := fv.faRef(structT, x.Field, r)
		// the address of a field is never nil (derived refs live below zero, like element addresses)
		fv.assume(st, sx("<", d, "0"))
		fv.setVal(x, d)
		fv.ptrs[x] = &Loc{structRef: d, ty: ft}
		return
	}
	f := fv.fieldFam(structT, x.Field)
	fv.ptrs[x] = &Loc{fam: f.Key, args: []string{r}, ty: ft}
	// a first-class value for the pointer, should it escape
	d := fv.faRef(structT, x.Field, r)
	fv.assume(st, sx("<", d, "0"))
	fv.setVal(x, d)
}

func (fv *FV) execIndexAddr(st *State, x *ssa.IndexAddr) {
	idx := fv.val(st, x.Index)
	var base, off, elemT = "", "0", types.Type(nil)
	switch tt := x.X.Type().Underlying().(type) {
	case *types.Slice:
		s := fv.val(st, x.X)
		base, off = sx("s-base", s), sx("s-off", s)
		elemT = tt.Elem()
		fv.oblige(st, "bounds", fv.srcLabel(x.Pos(), x.X.Name()+"["+x.Index.Name()+"]"), and(sx("<=", "0", idx), sx("<", idx, sx("s-len", s))), x.Pos(), nil)
	case *types.Pointer:
		arr := tt.Elem().Underlying().(*types.Array)
		elemT = arr.Elem()
		if l, ok := fv.ptrs[x.X]; ok && l.structRef != "" {
			base = l.structRef
		} else {
			base = fv.val(st, x.X)
		}
		if _, isConst := x.Index.(*ssa.Const); !isConst {
			fv.oblige(st, "bounds", fv.srcLabel(x.Pos(), x.X.Name()+"["+x.Index.Name()+"]"), and(sx("<=", "0", idx), sx("<", idx, intLit(arr.Len()))), x.Pos(), nil)
		}
	}
	pos := idx
	if off != "0" {
		pos = sx("+", off, idx)
	}
	if _, ok := elemT.Underlying().(*types.Struct); ok {
		d := fv.eaRef(elemT, base, pos)
		fv.assume(st, fv.eng.eaFacts(elemT, base, pos))
		fv.setVal(x, d)
		fv.ptrs[x] = &Loc{structRef: d, ty: elemT}
		return
	}
	f := fv.elemFam(elemT)
	_, isArr := x.X.Type().Underlying().(*types.Pointer)
	fv.ptrs[x] = &Loc{fam: f.Key, args: []string{base, pos}, ty: elemT, localArray: isArr}
	fv.setVal(x, fv.eaRef(elemT, base, pos))
}

func (fv *FV) execIndex(st *State, x *ssa.Index) {
	if isString(x.X.Type()) {
		s, i := fv.val(st, x.X), fv.val(st, x.Index)
		fv.oblige(st, "bounds", fv.srcLabel(x.Pos(), x.X.Name()+"["+x.Index.Name()+"]"), and(sx("<=", "0", i), sx("<", i, sx("str.len", s))), x.Pos(), nil)
		fv.bind(st, x, sx("str.to_code", sx("str.at", s, i)))
		return
	}
	fv.bindFresh(st, x)
}

// guardCheck: accesses to a mutex-guarded map need the lock (ghost state 1 = read, 2 = write).
func (fv *FV) guardCheck(st *State, m string, write bool, pos token.Pos, what string) {
	mu, ok := fv.guardOf[m]
	if !ok {
		return
	}
	cur := fv.read(st, fv.lockFam(), mu)
	goal := sx(">=", cur, "1")
	if write {
		goal = eq(cur, "2")
	}
	fv.oblige(st, "guarded", fv.srcLabel(pos, what), goal, pos, nil)
}

func (fv *FV) execLookup(st *State, x *ssa.Lookup) {
	if isString(x.X.Type()) {
		s, i := fv.val(st, x.X), fv.val(st, x.Index)
		fv.oblige(st, "bounds", fv.srcLabel(x.Pos(), x.X.Name()+"["+x.Index.Name()+"]"), and(sx("<=", "0", i), sx("<", i, sx("str.len", s))), x.Pos(), nil)
		fv.bind(st, x, sx("str.to_code", sx("str.at", s, i)))
		return
	}
	mt := x.X.Type()
	mm := mt.Underlying().(*types.Map)
	m := fv.val(st, x.X)
	k := fv.val(st, x.Index)
	if isInterface(mm.Key()) && !isInterface(x.Index.Type()) {
		k = fv.u.box(k, x.Index.Type())
	}
	fv.guardCheck(st, m, false, x.Pos(), "map read")
	has := fv.mapHas(st, mt, m, k)
	get := fv.mapGet(st, mt, m, k)
	_, _, card := fv.mapFams(mt)
	fv.assume(st, implies(has, sx(">=", fv.read(st, card, m), "1")))
	fv.assume(st, sx(">=", fv.read(st, card, m), "0"))
	hc := fv.fresh("has")
	fv.emit(fmt.Sprintf("(define-fun %s () Bool %s)", hc, has))
	gc := fv.fresh("get")
	fv.emit(fmt.Sprintf("(define-fun %s () %s %s)", gc, fv.u.sortOf(mm.Elem()), get))
	fv.assume(st, fv.valid(gc, mm.Elem(), st.wm))
	if x.CommaOk {
		fv.tuples[x] = []string{gc, hc}
	} else {
		fv.setVal(x, gc)
	}
}

func (fv *FV) execMapUpdate(st *State, x *ssa.MapUpdate) {
	mt := x.Map.Type()
	mm := mt.Underlying().(*types.Map)
	m := fv.val(st, x.Map)
	k := fv.val(st, x.Key)
	v := fv.val(st, x.Value)
	if isInterface(mm.Key()) && !isInterface(x.Key.Type()) {
		k = fv.u.box(k, x.Key.Type())
	}
	fv.oblige(st, "nilmap", fv.srcLabel(x.Pos(), x.Map.Name()+"[...]="), sx("distinct", m, "0"), x.Pos(), nil)
	fv.guardCheck(st, m, true, x.Pos(), "map write")
	fv.mapStore(st, mt, m, k, v)
}

func (fv *FV) mapStore(st *State, mt types.Type, m, k, v string) {
	dom, val, card := fv.mapFams(mt)
	fv.frameCheck(st, dom, []string{m, k}, "map store")
	had := fv.read(st, dom, m, k)
	oldCard := fv.read(st, card, m)
	fv.assume(st, sx(">=", oldCard, "0"))
	nc := fv.fresh("card")
	fv.emit(fmt.Sprintf("(define-fun %s () Int (ite %s %s (+ %s 1)))", nc, had, oldCard, oldCard))
	fv.write(st, dom, []string{m, k}, "true")
	fv.write(st, val, []string{m, k}, v)
	fv.write(st, card, []string{m}, nc)
}

func (fv *FV) mapDelete(st *State, mt types.Type, m, k string) {
	dom, _, card := fv.mapFams(mt)
	fv.frameCheck(st, dom, []string{m, k}, "map delete")
	had := and(sx("distinct", m, "0"), fv.read(st, dom, m, k))
	oldCard := fv.read(st, card, m)
	nc := fv.fresh("card")
	fv.emit(fmt.Sprintf("(define-fun %s () Int (ite %s (- %s 1) %s))", nc, had, oldCard, oldCard))
	fv.write(st, dom, []string{m, k}, "false")
	fv.write(st, card, []string{m}, nc)
}

func (fv *FV) execMakeSlice(st *State, x *ssa.MakeSlice) {
	n, c := fv.val(st, x.Len), fv.val(st, x.Cap)
	fv.oblige(st, "makeslice", fv.srcLabel(x.Pos(), "make"), and(sx("<=", "0", n), sx("<=", n, c)), x.Pos(), nil)
	r := fv.alloc(st)
	elem := x.Type().Underlying().(*types.Slice).Elem()
	if fv.eng.nonNilElems[typeKey(elem)] {
		fv.oblige(st, "nonnil-elem", fv.srcLabel(x.Pos(), "make"), eq(n, "0"), x.Pos(), nil)
	}
	if est, ok := elem.Underlying().(*types.Struct); ok {
		_ = est
		// struct elements: zero through derived refs is not expanded; fields read as arbitrary
		fv.assumptionsUsed["make of struct slices: elements not zero-initialised in the model (over-approximation)"] = true
	} else {
		f := fv.elemFam(elem)
		_, names := famParams(f)
		fv.writeWhere(st, f, eq(names[0], r), fv.u.zero(elem))
	}
	fv.bind(st, x, sx("mk-slice", r, "0", n, c))
}

func (fv *FV) execSlice(st *State, x *ssa.Slice) {
	lo, hi := "0", ""
	if x.Low != nil {
		lo = fv.val(st, x.Low)
	}
	if x.High != nil {
		hi = fv.val(st, x.High)
	}
	label := fv.srcLabel(x.Pos(), x.Name())
	switch tt := x.X.Type().Underlying().(type) {
	case *types.Slice:
		s := fv.val(st, x.X)
		if hi == "" {
			hi = sx("s-len", s)
		}
		mx := sx("s-cap", s)
		if x.Max != nil {
			m := fv.val(st, x.Max)
			fv.oblige(st, "bounds", label, and(sx("<=", "0", lo), sx("<=", lo, hi), sx("<=", hi, m), sx("<=", m, sx("s-cap", s))), x.Pos(), nil)
			mx = m
		} else {
			fv.oblige(st, "bounds", label, and(sx("<=", "0", lo), sx("<=", lo, hi), sx("<=", hi, sx("s-cap", s))), x.Pos(), nil)
		}
		// slicing a nil slice yields nil (offset stays 0 because lo must be 0)
		fv.bind(st, x, sx("mk-slice", sx("s-base", s), sx("+", sx("s-off", s), lo), sx("-", hi, lo), sx("-", mx, lo)))
	case *types.Basic: // string
		s := fv.val(st, x.X)
		if hi == "" {
			hi = sx("str.len", s)
		}
		fv.oblige(st, "bounds", label, and(sx("<=", "0", lo), sx("<=", lo, hi), sx("<=", hi, sx("str.len", s))), x.Pos(), nil)
		fv.bind(st, x, sx("str.substr", s, lo, sx("-", hi, lo)))
	case *types.Pointer: // *array
		arr := tt.Elem().Underlying().(*types.Array)
		var base string
		if l, ok := fv.ptrs[x.X]; ok && l.structRef != "" {
			base = l.structRef
		} else {
			base = fv.val(st, x.X)
		}
		n := intLit(arr.Len())
		if hi == "" {
			hi = n
		}
		if x.Low != nil || x.High != nil {
			fv.oblige(st, "bounds", label, and(sx("<=", "0", lo), sx("<=", lo, hi), sx("<=", hi, n)), x.Pos(), nil)
		}
		fv.bind(st, x, sx("mk-slice", base, lo, sx("-", hi, lo), sx("-", n, lo)))
	default:
		fv.bindFresh(st, x)
	}
}

func (fv *FV) execTypeAssert(st *State, x *ssa.TypeAssert) {
	v := fv.val(st, x.X)
	u := fv.u
	var ok, val string
	if isInterface(x.AssertedType) {
		// interface-to-interface: succeeds iff non-nil and implements (unknown)
		okc := fv.freshConst("implements", "Bool")
		ok = and(not(eq(v, "any-nil")), okc)
		if it, isI := x.AssertedType.Underlying().(*types.Interface); isI && it.NumMethods() == 0 {
			ok = not(eq(v, "any-nil"))
		}
		val = v
	} else {
		ok = u.isType(v, x.AssertedType)
		val = u.unbox(v, x.AssertedType)
		if _, isSt := x.AssertedType.Underlying().(*types.Struct); isSt {
			fv.eng.declareBox(u, x.AssertedType)
		}
	}
	if x.CommaOk {
		okc := fv.fresh("ok")
		fv.emit(fmt.Sprintf("(define-fun %s () Bool %s)", okc, ok))
		vc := fv.fresh("ta")
		fv.emit(fmt.Sprintf("(define-fun %s () %s %s)", vc, u.sortOf(x.AssertedType), ite(okc, val, u.zero(x.AssertedType))))
		fv.assume(st, fv.valid(vc, x.AssertedType, st.wm))
		if fv.eng.nonNilBoxed[typeKey(x.AssertedType)] {
			fv.assume(st, implies(okc, sx("distinct", vc, "0")))
			fv.used("data assumption: interface values never hold a nil " + typeKey(x.AssertedType))
		}
		fv.tuples[x] = []string{vc, okc}
		return
	}
	fv.oblige(st, "typeassert", fv.srcLabel(x.Pos(), x.X.Name()+".("+shorten(x.AssertedType.String())+")"), ok, x.Pos(), nil)
	c := fv.bind(st, x, val)
	fv.assume(st, fv.valid(c, x.AssertedType, st.wm))
	if fv.eng.nonNilBoxed[typeKey(x.AssertedType)] {
		fv.assume(st, sx("distinct", c, "0"))
	}
}

func (fv *FV) execRange(st *State, x *ssa.Range) {
	if _, ok := x.X.Type().Underlying().(*types.Map); !ok {
		fv.noteUnsupported("range over string")
		fv.setVal(x, "0")
		return
	}
	mt := x.X.Type()
	mm := mt.Underlying().(*types.Map)
	// visited predicate, initially empty
	sym := fv.fresh("seen")
	fv.emit(fmt.Sprintf("(define-fun %s ((k %s)) Bool false)", sym, fv.u.sortOf(mm.Key())))
	st.iters[x] = sym
	fv.setVal(x, "0")
}

func (fv *FV) execNext(st *State, x *ssa.Next) {
	rng, _ := x.Iter.(*ssa.Range)
	u := fv.u
	if x.IsString || rng == nil {
		tup := x.Type().(*types.Tuple)
		var ts []string
		for i := 0; i < tup.Len(); i++ {
			c := fv.freshConst("next", u.sortOf(tup.At(i).Type()))
			ts = append(ts, c)
		}
		fv.tuples[x] = ts
		return
	}
	mt := rng.X.Type()
	mm := mt.Underlying().(*types.Map)
	m := fv.val(st, rng.X)
	fv.guardCheck(st, m, false, x.Pos(), "map range")
	ks, vs := u.sortOf(mm.Key()), u.sortOf(mm.Elem())
	ok := fv.freshConst("nxok", "Bool")
	k := fv.freshConst("nxk", ks)
	v := fv.freshConst("nxv", vs)
	seen, have := st.iters[rng]
	if !have {
		seen = fv.fresh("seen")
		fv.emit(fmt.Sprintf("(declare-fun %s (%s) Bool)", seen, ks))
	}
	dom, val, _ := fv.mapFams(mt)
	fv.assume(st, implies(ok, and(sx("distinct", m, "0"), fv.read(st, dom, m, k), not(sx(seen, k)), eq(v, fv.read(st, val, m, k)))))
	fv.assume(st, implies(ok, and(fv.valid(k, mm.Key(), st.wm), fv.valid(v, mm.Elem(), st.wm))))
	q := fv.fresh("q!k")
	fv.assume(st, implies(not(ok), fmt.Sprintf("(forall ((%s %s)) %s)", q, ks, implies(and(sx("distinct", m, "0"), fv.read(st, dom, m, q)), sx(seen, q)))))
	// after a successful Next the key is visited
	ns := fv.fresh("seen")
	fv.emit(fmt.Sprintf("(define-fun %s ((k %s)) Bool (or (and %s (= k %s)) (%s k)))", ns, ks, ok, k, seen))
	st.iters[rng] = ns
	fv.tuples[x] = []string{ok, k, v}
}

func (fv *FV) execPhi(st *State, x *ssa.Phi) {
	b := x.Block()
	c := fv.freshConst(sanitize(x.Name()), fv.u.sortOf(x.Type()))
	for i, p := range b.Preds {
		es := fv.edgeSt[[2]int{p.Index, b.Index}]
		if es == nil || es.dead {
			continue
		}
		fv.assumeGlobal(implies(es.reach, eq(c, fv.val(es, x.Edges[i]))))
	}
	fv.vals[x] = c
}

func (fv *FV) execRunDefers(st *State) {
	// deferred calls run LIFO (approximated by reverse program order); a defer statement
	// that was not reached on this path is skipped (path-sensitive "armed" flag)
	for i := len(fv.deferred) - 1; i >= 0; i-- {
		d := fv.deferred[i]
		armed, ok := st.armed[d]
		if !ok || armed == "false" {
			continue
		}
		if armed == "true" {
			fv.execCall(st, d, nil)
			continue
		}
		yes := st.clone()
		yc := fv.freshConst("dfy", "Bool")
		fv.assumeGlobal(eq(yc, and(st.reach, armed)))
		yes.reach = yc
		fv.execCall(yes, d, nil)
		no := st.clone()
		nc := fv.freshConst("dfn", "Bool")
		fv.assumeGlobal(eq(nc, and(st.reach, not(armed))))
		no.reach = nc
		m := fv.merge("defer", []*State{yes, no})
		*st = *m
	}
}

// havocAll forgets every heap family (and bumps the watermark).
func (fv *FV) havocAll(st *State, why string) {
	{
		nw := fv.freshConst("wm", "Int")
		fv.assume(st, sx(">=", nw, st.wm))
		st.wm = nw
	}
	for _, k := range fv.famOrder {
		f := fv.fams[k]
		if strings.HasPrefix(k, "GL|") {
			continue // ghost lock state changes only through Lock/Unlock
		}
		fv.havocFamily(st, f, "true")
	}
	fv.unmodelled["havoc-all: "+why] = true
}
