package main

// SMT-LIB term construction, sort mapping from Go types, heap families.

import (
	"fmt"
	"go/types"
	"hash/fnv"
	"regexp"
	"sort"
	"strings"
)

func sx(op string, args ...string) string {
	if len(args) == 0 {
		return op
	}
	return "(" + op + " " + strings.Join(args, " ") + ")"
}

func and(xs ...string) string {
	var ys []string
	for _, x := range xs {
		if x == "true" || x == "" {
			continue
		}
		if x == "false" {
			return "false"
		}
		ys = append(ys, x)
	}
	if len(ys) == 0 {
		return "true"
	}
	if len(ys) == 1 {
		return ys[0]
	}
	return sx("and", ys...)
}

func or(xs ...string) string {
	var ys []string
	for _, x := range xs {
		if x == "false" || x == "" {
			continue
		}
		if x == "true" {
			return "true"
		}
		ys = append(ys, x)
	}
	if len(ys) == 0 {
		return "false"
	}
	if len(ys) == 1 {
		return ys[0]
	}
	return sx("or", ys...)
}

func not(x string) string {
	if x == "true" {
		return "false"
	}
	if x == "false" {
		return "true"
	}
	if strings.HasPrefix(x, "(not ") && balanced(x[5:len(x)-1]) {
		return x[5 : len(x)-1]
	}
	return sx("not", x)
}

func balanced(s string) bool {
	d := 0
	inq := false
	for i := 0; i < len(s); i++ {
		c := s[i]
		if c == '"' {
			inq = !inq
		}
		if inq {
			continue
		}
		if c == '(' {
			d++
		} else if c == ')' {
			d--
			if d < 0 {
				return false
			}
		} else if c == ' ' && d == 0 {
			return false
		}
	}
	return d == 0
}

func implies(a, b string) string {
	if a == "true" {
		return b
	}
	if a == "false" || b == "true" {
		return "true"
	}
	return sx("=>", a, b)
}

func ite(c, a, b string) string {
	if c == "true" {
		return a
	}
	if c == "false" {
		return b
	}
	if a == b {
		return a
	}
	return sx("ite", c, a, b)
}

func eq(a, b string) string {
	if a == b {
		return "true"
	}
	return sx("=", a, b)
}

func intLit(n int64) string {
	if n < 0 {
		return fmt.Sprintf("(- %d)", -n)
	}
	return fmt.Sprintf("%d", n)
}

func strLit(s string) string {
	var b strings.Builder
	b.WriteByte('"')
	for _, r := range s {
		switch {
		case r == '"':
			b.WriteString(`""`)
		case r < 0x20 || r > 0x7e || r == '\\':
			fmt.Fprintf(&b, `\u{%x}`, r)
		default:
			b.WriteRune(r)
		}
	}
	b.WriteByte('"')
	return b.String()
}

// ---------------------------------------------------------------------------
// Sorts

const preludeFixed = `(set-option :produce-models true)
(set-logic ALL)
(declare-datatypes ((Slice 0)) (((mk-slice (s-base Int) (s-off Int) (s-len Int) (s-cap Int)))))
(declare-datatypes ((Any 0)) (((any-nil) (any-str (a-str String) (a-stag Int)) (any-int (a-int Int) (a-itag Int)) (any-bool (a-bool Bool) (a-btag Int)) (any-ref (a-ref Int) (a-rtag Int)) (any-slice (a-slice Slice) (a-sltag Int)) (any-opq (a-opq Int) (a-otag Int)))))
(define-fun nil-slice () Slice (mk-slice 0 0 0 0))
(define-fun any-tag ((x Any)) Int (ite ((_ is any-str) x) (a-stag x) (ite ((_ is any-int) x) (a-itag x) (ite ((_ is any-bool) x) (a-btag x) (ite ((_ is any-ref) x) (a-rtag x) (ite ((_ is any-slice) x) (a-sltag x) (ite ((_ is any-opq) x) (a-otag x) 0)))))))
(define-fun slice-ok ((s Slice)) Bool (and (<= 0 (s-off s)) (<= 0 (s-len s)) (<= (s-len s) (s-cap s)) (=> (= (s-base s) 0) (and (= (s-cap s) 0) (= (s-off s) 0)))))
(define-fun go-div ((a Int) (b Int)) Int (ite (>= a 0) (ite (> b 0) (div a b) (- (div a (- b)))) (ite (> b 0) (- (div (- a) b)) (div (- a) (- b)))))
(define-fun go-mod ((a Int) (b Int)) Int (- a (* b (go-div a b))))
(declare-fun no-trigger (Int) Bool)
(declare-fun ref-ty (Int) Int)
(declare-fun tag-kind (Int) Int)
(define-fun any-wf ((x Any)) Bool (and (=> ((_ is any-str) x) (= (tag-kind (a-stag x)) 1)) (=> ((_ is any-int) x) (= (tag-kind (a-itag x)) 2)) (=> ((_ is any-bool) x) (= (tag-kind (a-btag x)) 3)) (=> ((_ is any-ref) x) (= (tag-kind (a-rtag x)) 4)) (=> ((_ is any-slice) x) (= (tag-kind (a-sltag x)) 5)) (=> ((_ is any-opq) x) (= (tag-kind (a-otag x)) 6))))
(declare-fun str-itoa (Int) String)
(declare-fun itoa-inv (String) Int)
(declare-fun any-fmt (Any) String)
(declare-fun err-msg (Any) String)
`

// Universe holds everything that is shared between the functions of one run:
// type tags, struct sorts, family short names.
type Universe struct {
	tags       map[string]int
	tagList    []string
	tagTypes   []types.Type
	structSort map[string]string // type string -> sort name
	structDecl []string          // declaration lines in dependency order
	structInfo map[string]*types.Struct
	shortNames map[string]string
	usedShort  map[string]bool
}

func newUniverse() *Universe {
	return &Universe{
		tags:       map[string]int{},
		structSort: map[string]string{},
		structInfo: map[string]*types.Struct{},
		shortNames: map[string]string{},
		usedShort:  map[string]bool{},
	}
}

func (u *Universe) tag(t types.Type) int {
	k := typeKey(t)
	if n, ok := u.tags[k]; ok {
		return n
	}
	n := len(u.tags) + 1
	u.tags[k] = n
	u.tagList = append(u.tagList, k)
	u.tagTypes = append(u.tagTypes, t)
	return n
}

// refTag identifies a struct pointer type in ref-ty facts (a hash, so that it
// does not depend on the order in which types are met).
func refTag(t types.Type) int {
	h := fnv.New32a()
	h.Write([]byte(typeKey(t)))
	return int(h.Sum32()&0x3fffffff) + 1
}

var anyRe = regexp.MustCompile(`\bany\b`)

// typeKey is the canonical name of a type (the alias `any` is spelled interface{}).
func typeKey(t types.Type) string {
	s := types.TypeString(t, nil)
	if strings.Contains(s, "any") {
		s = anyRe.ReplaceAllString(s, "interface{}")
	}
	return s
}

func shorten(s string) string {
	var b strings.Builder
	for _, r := range s {
		switch {
		case r >= 'a' && r <= 'z', r >= 'A' && r <= 'Z', r >= '0' && r <= '9', r == '_':
			b.WriteRune(r)
		case r == '.' || r == '/':
			b.Reset() // keep last path component
		case r == '*':
			b.WriteString("P")
		case r == '[' || r == ']':
			b.WriteString("L")
		default:
		}
	}
	if b.Len() == 0 {
		return "x"
	}
	return b.String()
}

func (u *Universe) short(prefix, key string) string {
	full := prefix + "|" + key
	if s, ok := u.shortNames[full]; ok {
		return s
	}
	base := prefix + "_" + shortenKey(key)
	s := base
	for i := 2; u.usedShort[s]; i++ {
		s = fmt.Sprintf("%s_%d", base, i)
	}
	u.usedShort[s] = true
	u.shortNames[full] = s
	return s
}

func shortenKey(key string) string {
	parts := strings.Split(key, "|")
	for i, p := range parts {
		// drop package paths
		var b strings.Builder
		cur := ""
		flush := func() {
			if idx := strings.LastIndex(cur, "/"); idx >= 0 {
				cur = cur[idx+1:]
			}
			if idx := strings.LastIndex(cur, "."); idx >= 0 {
				cur = cur[idx+1:]
			}
			b.WriteString(cur)
			cur = ""
		}
		for _, r := range p {
			switch {
			case r >= 'a' && r <= 'z', r >= 'A' && r <= 'Z', r >= '0' && r <= '9', r == '_', r == '.', r == '/', r == '-':
				if r == '-' {
					r = '_'
				}
				cur += string(r)
			case r == '*':
				flush()
				b.WriteString("P")
			case r == '[':
				flush()
				b.WriteString("L")
			case r == ']', r == ' ', r == '{', r == '}', r == '(', r == ')', r == ',', r == ';':
				flush()
			default:
				flush()
			}
		}
		flush()
		parts[i] = b.String()
	}
	return strings.Join(parts, "_")
}

// sortOf maps a Go type to an SMT sort name.
func (u *Universe) sortOf(t types.Type) string {
	switch tt := t.Underlying().(type) {
	case *types.Basic:
		switch {
		case tt.Info()&types.IsBoolean != 0:
			return "Bool"
		case tt.Info()&types.IsString != 0:
			return "String"
		case tt.Kind() == types.UnsafePointer:
			return "Int"
		case tt.Kind() == types.UntypedNil:
			return "Int"
		default:
			return "Int" // integers; floats and complex are opaque ids
		}
	case *types.Pointer, *types.Map, *types.Chan, *types.Signature:
		return "Int"
	case *types.Slice:
		return "Slice"
	case *types.Interface:
		return "Any"
	case *types.Struct:
		return u.structSortOf(t, tt)
	case *types.Array:
		return "Int" // arrays by value are opaque ids
	case *types.Tuple:
		return "Int"
	case *types.TypeParam:
		return "Any"
	}
	return "Int"
}

func (u *Universe) structSortOf(t types.Type, st *types.Struct) string {
	k := typeKey(t)
	if s, ok := u.structSort[k]; ok {
		return s
	}
	name := u.short("St", k)
	u.structSort[k] = name
	u.structInfo[name] = st
	var fields []string
	for i := 0; i < st.NumFields(); i++ {
		fields = append(fields, fmt.Sprintf("(%s.%d %s)", name, i, u.sortOf(st.Field(i).Type())))
	}
	if len(fields) == 0 {
		u.structDecl = append(u.structDecl, fmt.Sprintf("(declare-datatypes ((%s 0)) (((mk-%s))))", name, name))
	} else {
		u.structDecl = append(u.structDecl, fmt.Sprintf("(declare-datatypes ((%s 0)) (((mk-%s %s))))", name, name, strings.Join(fields, " ")))
	}
	return name
}

// zero value term for a type
func (u *Universe) zero(t types.Type) string {
	switch tt := t.Underlying().(type) {
	case *types.Basic:
		switch {
		case tt.Info()&types.IsBoolean != 0:
			return "false"
		case tt.Info()&types.IsString != 0:
			return `""`
		default:
			return "0"
		}
	case *types.Slice:
		return "nil-slice"
	case *types.Interface:
		return "any-nil"
	case *types.Struct:
		s := u.sortOf(t)
		if tt.NumFields() == 0 {
			return "mk-" + s
		}
		var fs []string
		for i := 0; i < tt.NumFields(); i++ {
			fs = append(fs, u.zero(tt.Field(i).Type()))
		}
		return sx("mk-"+s, fs...)
	}
	return "0"
}

// box builds the Any value holding v of concrete (non-interface) type t.
func (u *Universe) box(v string, t types.Type) string {
	tag := intLit(int64(u.tag(t)))
	switch tt := t.Underlying().(type) {
	case *types.Basic:
		switch {
		case tt.Info()&types.IsBoolean != 0:
			return sx("any-bool", v, tag)
		case tt.Info()&types.IsString != 0:
			return sx("any-str", v, tag)
		case tt.Info()&types.IsInteger != 0:
			return sx("any-int", v, tag)
		default:
			return sx("any-opq", v, tag)
		}
	case *types.Pointer, *types.Map, *types.Chan, *types.Signature:
		return sx("any-ref", v, tag)
	case *types.Slice:
		return sx("any-slice", v, tag)
	case *types.Interface:
		return v
	case *types.Struct:
		return sx("any-opq", sx(u.structBoxFn(t), v), tag)
	}
	return sx("any-opq", v, tag)
}

// struct values inside interfaces are boxed through an injective-by-assumption
// uninterpreted function St -> Int (with an inverse for unboxing).
func (u *Universe) structBoxFn(t types.Type) string {
	return u.short("boxst", typeKey(t))
}
func (u *Universe) structUnboxFn(t types.Type) string {
	return u.short("unboxst", typeKey(t))
}

// isType is the test "dynamic type of x is exactly t" (t concrete).
func (u *Universe) isType(x string, t types.Type) string {
	tag := intLit(int64(u.tag(t)))
	switch tt := t.Underlying().(type) {
	case *types.Basic:
		switch {
		case tt.Info()&types.IsBoolean != 0:
			return and(sx("(_ is any-bool)", x), eq(sx("a-btag", x), tag))
		case tt.Info()&types.IsString != 0:
			return and(sx("(_ is any-str)", x), eq(sx("a-stag", x), tag))
		case tt.Info()&types.IsInteger != 0:
			return and(sx("(_ is any-int)", x), eq(sx("a-itag", x), tag))
		default:
			return and(sx("(_ is any-opq)", x), eq(sx("a-otag", x), tag))
		}
	case *types.Pointer, *types.Map, *types.Chan, *types.Signature:
		return and(sx("(_ is any-ref)", x), eq(sx("a-rtag", x), tag))
	case *types.Slice:
		return and(sx("(_ is any-slice)", x), eq(sx("a-sltag", x), tag))
	}
	return and(sx("(_ is any-opq)", x), eq(sx("a-otag", x), tag))
}

// unbox extracts the payload of x assuming isType(x, t).
func (u *Universe) unbox(x string, t types.Type) string {
	switch tt := t.Underlying().(type) {
	case *types.Basic:
		switch {
		case tt.Info()&types.IsBoolean != 0:
			return sx("a-bool", x)
		case tt.Info()&types.IsString != 0:
			return sx("a-str", x)
		case tt.Info()&types.IsInteger != 0:
			return sx("a-int", x)
		default:
			return sx("a-opq", x)
		}
	case *types.Pointer, *types.Map, *types.Chan, *types.Signature:
		return sx("a-ref", x)
	case *types.Slice:
		return sx("a-slice", x)
	case *types.Interface:
		return x
	case *types.Struct:
		return sx(u.structUnboxFn(t), sx("a-opq", x))
	}
	return sx("a-opq", x)
}

// tagKind: which Any constructor carries values of this dynamic type.
func tagKind(t types.Type) int {
	switch tt := t.Underlying().(type) {
	case *types.Basic:
		switch {
		case tt.Info()&types.IsBoolean != 0:
			return 3
		case tt.Info()&types.IsString != 0:
			return 1
		case tt.Info()&types.IsInteger != 0:
			return 2
		default:
			return 6
		}
	case *types.Pointer, *types.Map, *types.Chan, *types.Signature:
		return 4
	case *types.Slice:
		return 5
	}
	return 6
}

// comparable reports whether values of dynamic type t may be compared with ==.
func comparableType(t types.Type) bool { return types.Comparable(t) }

// uncomparableAny: x holds a slice, map or func (comparison with an equal
// dynamic type panics at run time).
func uncomparableAny(u *Universe, x string) string {
	var tags []string
	for k, n := range u.tags {
		_ = k
		_ = n
	}
	_ = tags
	// slices are always uncomparable; refs are uncomparable when map/func typed.
	return sx("(_ is any-slice)", x)
}

func sortedKeys[V any](m map[string]V) []string {
	ks := make([]string, 0, len(m))
	for k := range m {
		ks = append(ks, k)
	}
	sort.Strings(ks)
	return ks
}
