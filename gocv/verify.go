package main

// Core of the VC generator: per-function symbolic state, heap families,
// script accumulation, obligations.

import (
	"fmt"
	"go/token"
	"go/types"
	"sort"
	"strings"

	"golang.org/x/tools/go/ssa"
)

type Family struct {
	Key      string
	Short    string
	ArgSorts []string
	ResSort  string
	nver     int
	RefKind  string // "ptr" when values are references, "slice" when slices, "" otherwise
}

type Obligation struct {
	Name     string // stable name: pkg.Func#kind[ord]{excerpt}
	Func     string
	Kind     string
	Props    []string
	Guard    string
	Goal     string
	Prefix   int    // number of script lines that precede it
	Pos      string // file:line (informational, not part of the name)
	Script   *[]string
	Prelude  func() string
	Expect   string // "unsat" normally; "sat" for cover/smoke checks
	Result   *SolveResult
	Values   []string // terms to get-value on sat
	ValNames []string
	Text     string // clause text
	Region   int    // side-exploration region the obligation belongs to (0 = main path)
	Using    []string
}

type State struct {
	reach string
	cells map[*ssa.Alloc]string
	heap  map[string]string // family key -> current symbol
	wm    string            // allocation watermark
	dead  bool
	iters map[ssa.Value]string  // map-range iterators: visited predicate symbol
	lock  map[string]string     // unused
	armed map[*ssa.Defer]string // Bool term: the defer statement has executed on this path
	last  map[string]*lastCall  // ghost record of the most recent call of a watched function on this path
}

// lastCall is what lastresult(F) / lastarg(F, i) / atlast(F, e) read: the arguments and results of
// the most recent call of F on the path, the state just before it, and the condition under
// which the path went through that call.
type lastCall struct {
	snap  *State
	args  []SVal
	res   []SVal
	valid string
}

func (s *State) clone() *State {
	n := &State{reach: s.reach, wm: s.wm, dead: s.dead}
	n.cells = make(map[*ssa.Alloc]string, len(s.cells))
	for k, v := range s.cells {
		n.cells[k] = v
	}
	n.heap = make(map[string]string, len(s.heap))
	for k, v := range s.heap {
		n.heap[k] = v
	}
	n.iters = make(map[ssa.Value]string, len(s.iters))
	for k, v := range s.iters {
		n.iters[k] = v
	}
	n.lock = make(map[string]string, len(s.lock))
	for k, v := range s.lock {
		n.lock[k] = v
	}
	n.armed = make(map[*ssa.Defer]string, len(s.armed))
	for k, v := range s.armed {
		n.armed[k] = v
	}
	if len(s.last) > 0 {
		n.last = make(map[string]*lastCall, len(s.last))
		for k, v := range s.last {
			n.last[k] = v
		}
	}
	return n
}

// Loc is a statically known memory location (the value of a pointer-typed SSA
// value produced by Alloc / FieldAddr / IndexAddr).
type Loc struct {
	reg  *ssa.Alloc // register cell
	fam  string     // family key for heap locations
	args []string
	ty   types.Type // type of the value stored there
	// for struct-typed locations: the ref of the struct object
	structRef  string
	nilCheck   string // ref term that must be non-nil for the access (or "")
	localArray bool   // element of an array object (varargs temporaries): not subject to element invariants on load
}

type FV struct {
	eng      *Engine
	u        *Universe
	fn       *ssa.Function
	contract *Contract
	relName  string
	pkgPath  string

	script   []string
	obls     []*Obligation
	fams     map[string]*Family
	preFams  []*Family
	famOrder []string
	newFam   bool
	counter  int
	declared map[string]bool

	vals     map[ssa.Value]string
	tuples   map[ssa.Value][]string
	ptrs     map[ssa.Value]*Loc
	closures map[ssa.Value]*ssa.MakeClosure

	entry    *State
	blockOut map[*ssa.BasicBlock]*State
	edgeSt   map[[2]int]*State // state along edge (from,to), with reach = edge condition
	loops    map[*ssa.BasicBlock]*LoopInfo
	loopOrd  []*ssa.BasicBlock

	params          map[string]SVal // contract-visible names at entry
	resNames        []string
	kindCount       map[string]int
	unsupported     []string
	unmodelled      map[string]bool
	assumptionsUsed map[string]bool
	calleesUsed     map[string]bool
	wm0             string
	deferred        []*ssa.Defer
	curBlock        *ssa.BasicBlock
	curInstr        ssa.Instruction
	safetyOff       map[string]bool
	specErrs        []string
	frames          []*frame
	retCount        int
	foldCount       int
	catch           *retCatcher
	noAssume        bool
	assumeInstead   string
	scriptRegion    []int
	inCalleeFrame   bool     // the frame check in progress is for a callee's footprint, not a store of this body
	noRecord        string   // set by lastarg()/atlast() when no call of the named function reaches the clause
	scriptOrigin    []string // name of the contract clause an assumption came from ("" = code semantics)
	origin          string
	region          int
	regionCount     int
	rootOf          map[string]string // derived ref term -> the object it lies in
	suppressObl     bool              // apply a contract without emitting its precondition obligations (already proved at this site)
	alias           map[string]string // contract parameter name -> implementation parameter name (interface refinement)
	nameSuffix      string
	lockKeys        []string
	refKinds        map[string]string
	guardOf         map[string]string // map value term -> mutex ref term guarding it
	noSpecAssume    bool
}

type LoopInfo struct {
	head      *ssa.BasicBlock
	blocks    map[*ssa.BasicBlock]bool
	ord       int
	spec      *LoopSpec
	rangeIdx  *ssa.Alloc // rangeindex cell if this is a slice range loop
	rangeLenV ssa.Value
	mapIter   ssa.Value // *ssa.Range if map range loop
	havocSt   *State    // state right after havoc (for inv-keep evaluation of modifies)
	preSt     *State
}

func (fv *FV) fresh(prefix string) string {
	fv.counter++
	return fmt.Sprintf("%s!%d", prefix, fv.counter)
}

func (fv *FV) emit(line string) {
	fv.script = append(fv.script, line)
	fv.scriptRegion = append(fv.scriptRegion, fv.region)
	fv.scriptOrigin = append(fv.scriptOrigin, fv.origin)
}

func (fv *FV) declConst(name, sort string) {
	fv.emit(fmt.Sprintf("(declare-const %s %s)", name, sort))
}

func (fv *FV) freshConst(prefix, sort string) string {
	n := fv.fresh(prefix)
	fv.declConst(n, sort)
	return n
}

// assume asserts fact under the reachability of the given state.
func (fv *FV) assume(st *State, fact string) {
	if fact == "true" || fact == "" {
		return
	}
	fv.emit(sx("assert", implies(st.reach, fact)))
}

func (fv *FV) assumeGlobal(fact string) {
	if fact == "true" || fact == "" {
		return
	}
	fv.emit(sx("assert", fact))
}

// ---------------------------------------------------------------------------
// Families

func (fv *FV) family(key string, argSorts []string, resSort string) *Family {
	if f, ok := fv.fams[key]; ok {
		return f
	}
	f := &Family{Key: key, Short: fv.u.short("F", key), ArgSorts: argSorts, ResSort: resSort}
	fv.fams[key] = f
	fv.famOrder = append(fv.famOrder, key)
	fv.newFam = true
	// declare version 0 now (late creation, only sound when pre-declared at entry: see run loop)
	fv.emit(fmt.Sprintf("(declare-fun %s_0 (%s) %s)", f.Short, strings.Join(argSorts, " "), resSort))
	if k, ok := fv.refKinds[key]; ok {
		f.RefKind = k
	}
	fv.closed(f, f.Short+"_0", fv.wm0)
	return f
}

// closed asserts heap closedness for an unconstrained family version: every reference
// it holds was allocated before the given watermark.
func (fv *FV) closed(f *Family, sym, wm string) {
	if f.RefKind == "" || wm == "" {
		return
	}
	var vars, names []string
	for i, s := range f.ArgSorts {
		n := fmt.Sprintf("c!%d", i)
		vars = append(vars, fmt.Sprintf("(%s %s)", n, s))
		names = append(names, n)
	}
	app := sym
	if len(names) > 0 {
		app = sx(sym, names...)
	}
	var body string
	switch f.RefKind {
	case "ptr":
		body = sx("<", app, wm)
	case "slice":
		body = and(sx("slice-ok", app), sx("<", sx("s-base", app), wm), sx("<=", "0", sx("s-base", app)))
	}
	if len(names) == 0 {
		fv.assumeGlobal(body)
		return
	}
	// only objects that exist at that point (ref below the watermark; derived refs are negative):
	// the contents of objects allocated later are described by whoever allocates them
	body = implies(sx("<", names[0], wm), body)
	fv.assumeGlobal(fmt.Sprintf("(forall (%s) (! %s :pattern (%s)))", strings.Join(vars, " "), body, app))
}

func refKindOf(t types.Type) string {
	switch t.Underlying().(type) {
	case *types.Pointer, *types.Map, *types.Chan, *types.Signature:
		return "ptr"
	case *types.Slice:
		return "slice"
	}
	return ""
}

func (fv *FV) famSym(st *State, f *Family) string {
	if s, ok := st.heap[f.Key]; ok {
		return s
	}
	s := f.Short + "_0"
	st.heap[f.Key] = s
	return s
}

func (fv *FV) newVersion(f *Family) string {
	f.nver++
	fv.counter++
	return fmt.Sprintf("%s_%d", f.Short, fv.counter)
}

// read applies the current version of a family.
func (fv *FV) read(st *State, f *Family, args ...string) string {
	sym := fv.famSym(st, f)
	if len(args) == 0 {
		return sym
	}
	return sx(sym, args...)
}

var argNames = []string{"r!a", "r!b", "r!c"}

func famParams(f *Family) (string, []string) {
	var ps []string
	var names []string
	for i, s := range f.ArgSorts {
		ps = append(ps, fmt.Sprintf("(%s %s)", argNames[i], s))
		names = append(names, argNames[i])
	}
	return strings.Join(ps, " "), names
}

// write defines the next version with one point updated.
func (fv *FV) write(st *State, f *Family, args []string, val string) {
	old := fv.famSym(st, f)
	nv := fv.newVersion(f)
	if len(f.ArgSorts) == 0 {
		fv.emit(fmt.Sprintf("(define-fun %s () %s %s)", nv, f.ResSort, val))
		st.heap[f.Key] = nv
		return
	}
	ps, names := famParams(f)
	var conds []string
	for i, a := range args {
		conds = append(conds, eq(names[i], a))
	}
	fv.emit(fmt.Sprintf("(define-fun %s (%s) %s (ite %s %s %s))", nv, ps, f.ResSort, and(conds...), val, sx(old, names...)))
	st.heap[f.Key] = nv
}

// writeWhere defines the next version where every point satisfying cond
// (a term over the family's formal parameters r!a, r!b) takes value val
// (also a term over them).
func (fv *FV) writeWhere(st *State, f *Family, cond, val string) {
	old := fv.famSym(st, f)
	nv := fv.newVersion(f)
	ps, names := famParams(f)
	fv.emit(fmt.Sprintf("(define-fun %s (%s) %s (ite %s %s %s))", nv, ps, f.ResSort, cond, val, sx(old, names...)))
	st.heap[f.Key] = nv
}

// havocFamily replaces the family by an unconstrained one where cond holds
// (cond over r!a.. ; "true" = everywhere).
func (fv *FV) havocFamily(st *State, f *Family, cond string) {
	old := fv.famSym(st, f)
	nv := fv.newVersion(f)
	if len(f.ArgSorts) == 0 {
		fv.emit(fmt.Sprintf("(declare-fun %s () %s)", nv, f.ResSort))
		st.heap[f.Key] = nv
		fv.closed(f, nv, st.wm)
		return
	}
	if cond == "true" {
		fv.emit(fmt.Sprintf("(declare-fun %s (%s) %s)", nv, strings.Join(f.ArgSorts, " "), f.ResSort))
		st.heap[f.Key] = nv
		fv.closed(f, nv, st.wm)
		return
	}
	if cond == "false" {
		return
	}
	h := nv + "h"
	fv.emit(fmt.Sprintf("(declare-fun %s (%s) %s)", h, strings.Join(f.ArgSorts, " "), f.ResSort))
	fv.closed(f, h, st.wm)
	ps, names := famParams(f)
	fv.emit(fmt.Sprintf("(define-fun %s (%s) %s (ite %s %s %s))", nv, ps, f.ResSort, cond, sx(h, names...), sx(old, names...)))
	st.heap[f.Key] = nv
}

// family constructors ------------------------------------------------------

func structKey(t types.Type) string {
	if p, ok := t.Underlying().(*types.Pointer); ok {
		t = p.Elem()
	}
	return typeKey(t)
}

func (fv *FV) fieldFam(structT types.Type, idx int) *Family {
	st := structT.Underlying().(*types.Struct)
	key := fmt.Sprintf("H|%s|%s", typeKey(structT), st.Field(idx).Name())
	fv.refKinds[key] = refKindOf(st.Field(idx).Type())
	return fv.family(key, []string{"Int"}, fv.u.sortOf(st.Field(idx).Type()))
}

func (fv *FV) cellFam(t types.Type) *Family {
	fv.refKinds["C|"+typeKey(t)] = refKindOf(t)
	return fv.family("C|"+typeKey(t), []string{"Int"}, fv.u.sortOf(t))
}

func (fv *FV) elemFam(elem types.Type) *Family {
	fv.refKinds["SE|"+typeKey(elem)] = refKindOf(elem)
	return fv.family("SE|"+typeKey(elem), []string{"Int", "Int"}, fv.u.sortOf(elem))
}

func mapKey(t types.Type) string {
	m := t.Underlying().(*types.Map)
	return typeKey(m.Key()) + "=>" + typeKey(m.Elem())
}

func (fv *FV) mapFams(t types.Type) (dom, val, card *Family) {
	m := t.Underlying().(*types.Map)
	k := mapKey(t)
	ks := fv.u.sortOf(m.Key())
	fv.refKinds["MV|"+k] = refKindOf(m.Elem())
	dom = fv.family("MD|"+k, []string{"Int", ks}, "Bool")
	val = fv.family("MV|"+k, []string{"Int", ks}, fv.u.sortOf(m.Elem()))
	card = fv.family("MC|"+k, []string{"Int"}, "Int")
	return
}

func (fv *FV) globalFam(g *ssa.Global) *Family {
	t := g.Type().(*types.Pointer).Elem()
	return fv.family("G|"+g.Pkg.Pkg.Path()+"."+g.Name(), nil, fv.u.sortOf(t))
}

// map reads with the nil-map convention
func (fv *FV) mapHas(st *State, t types.Type, m, k string) string {
	dom, _, _ := fv.mapFams(t)
	return and(sx("distinct", m, "0"), fv.read(st, dom, m, k))
}
func (fv *FV) mapGet(st *State, t types.Type, m, k string) string {
	_, val, _ := fv.mapFams(t)
	mt := t.Underlying().(*types.Map)
	return ite(fv.mapHas(st, t, m, k), fv.read(st, val, m, k), fv.u.zero(mt.Elem()))
}
func (fv *FV) mapLen(st *State, t types.Type, m string) string {
	_, _, card := fv.mapFams(t)
	return ite(eq(m, "0"), "0", fv.read(st, card, m))
}

// ---------------------------------------------------------------------------
// Allocation and validity

func (fv *FV) alloc(st *State) string { return fv.allocT(st, 0) }

// allocT allocates an object and records what it was allocated as (ref-ty):
// the tag of *T for a struct object made by new(T)/&T{}, 0 for everything
// else (arrays, maps, closures, cells). The fact only reaches a query that
// mentions ref-ty (the typed() builtin); gcDecls drops it otherwise.
func (fv *FV) allocT(st *State, tag int) string {
	r := fv.freshConst("ref", "Int")
	fv.assume(st, eq(r, st.wm))
	fv.emit(sx("assert", sx("=>", st.reach, eq(sx("ref-ty", r), intLit(int64(tag))))))
	nw := fv.freshConst("wm", "Int")
	fv.assume(st, eq(nw, sx("+", st.wm, "1")))
	// fv.assume(st, sx(">", r, "0")) follows from wm0 > 0
	st.wm = nw
	return r
}

// valid returns type-based facts about a value that was read from the heap,
// received as a parameter or produced by an unknown callee.
func (fv *FV) valid(term string, t types.Type, wm string) string {
	switch tt := t.Underlying().(type) {
	case *types.Basic:
		if tt.Info()&types.IsUnsigned != 0 {
			return sx("<=", "0", term)
		}
		return "true"
	case *types.Pointer, *types.Map, *types.Chan, *types.Signature:
		return sx("<", term, wm)
	case *types.Slice:
		return and(sx("slice-ok", term), sx("<", sx("s-base", term), wm), sx("<=", "0", sx("s-base", term)))
	case *types.Interface:
		return and(
			sx("any-wf", term),
			implies(sx("(_ is any-ref)", term), sx("<", sx("a-ref", term), wm)),
			implies(sx("(_ is any-slice)", term), and(sx("slice-ok", sx("a-slice", term)), sx("<", sx("s-base", sx("a-slice", term)), wm), sx("<=", "0", sx("s-base", sx("a-slice", term))))),
			implies(sx("(_ is any-str)", term), sx(">", sx("a-stag", term), "0")),
			implies(sx("(_ is any-int)", term), sx(">", sx("a-itag", term), "0")),
			implies(sx("(_ is any-bool)", term), sx(">", sx("a-btag", term), "0")),
			implies(sx("(_ is any-ref)", term), sx(">", sx("a-rtag", term), "0")),
			implies(sx("(_ is any-slice)", term), sx(">", sx("a-sltag", term), "0")),
			implies(sx("(_ is any-opq)", term), sx(">", sx("a-otag", term), "0")),
		)
	case *types.Struct:
		var fs []string
		s := fv.u.sortOf(t)
		for i := 0; i < tt.NumFields(); i++ {
			fs = append(fs, fv.valid(sx(fmt.Sprintf("%s.%d", s, i), term), tt.Field(i).Type(), wm))
		}
		return and(fs...)
	}
	return "true"
}

// ---------------------------------------------------------------------------
// Obligations

func (fv *FV) excerpt(pos token.Pos, fallback string) string {
	return fallback
}

func (fv *FV) posString(pos token.Pos) string {
	if !pos.IsValid() {
		return ""
	}
	p := fv.eng.fset.Position(pos)
	return fmt.Sprintf("%s:%d", strings.TrimPrefix(p.Filename, fv.eng.repoDir+"/"), p.Line)
}

func (fv *FV) obligeNoAssume(st *State, kind, label string, goal string, pos token.Pos, props []string) *Obligation {
	fv.noAssume = true
	defer func() { fv.noAssume = false }()
	return fv.oblige(st, kind, label, goal, pos, props)
}

func (fv *FV) oblige(st *State, kind, label string, goal string, pos token.Pos, props []string) *Obligation {
	if fv.safetyOff[kind] {
		return nil
	}
	if fv.suppressObl {
		return nil
	}
	base := fmt.Sprintf("%s.%s#%s{%s}", shortPkg(fv.pkgPath), fv.relName, kind, label)
	fv.kindCount[base]++
	name := base
	if n := fv.kindCount[base]; n > 1 {
		name = fmt.Sprintf("%s.%s#%s[%d]{%s}", shortPkg(fv.pkgPath), fv.relName, kind, n, label)
	}
	if props == nil {
		props = fv.defaultProps()
	}
	o := &Obligation{
		Name: name, Func: shortPkg(fv.pkgPath) + "." + fv.relName, Kind: kind, Props: props,
		Guard: st.reach, Goal: goal, Prefix: len(fv.script), Pos: fv.posString(pos), Expect: "unsat", Region: fv.region,
	}
	fv.obls = append(fv.obls, o)
	// after checking, assume
	if fv.assumeInstead != "" {
		fv.assume(st, fv.assumeInstead)
		fv.assumeInstead = ""
	} else if !fv.noAssume {
		fv.assume(st, goal)
	}
	return o
}

// obligeSpec proves a clause (goal mode) and then assumes it (assume mode).
func (fv *FV) obligeSpec(st *State, kind, label string, ctx *SpecCtx, cl *Clause, pos token.Pos, props []string, what string) *Obligation {
	g := *ctx
	g.asGoal = true
	fv.noRecord = ""
	goal, err := fv.trySpec(&g, cl)
	if err != nil {
		fv.specErrs = append(fv.specErrs, fmt.Sprintf("%s: %s: %v", fv.relName, what, err))
		return nil
	}
	a := *ctx
	a.asGoal = false
	as, err := fv.trySpec(&a, cl)
	if err == nil {
		fv.assumeInstead = as
	}
	if fv.noRecord != "" {
		// the clause refers to a call (lastarg/atlast) that does not happen on any path to this point:
		// the obligation fails as such (it is not a contract error)
		goal = "false"
		fv.assumeInstead = "true"
	}
	fv.origin = cl.Name
	o := fv.oblige(st, kind, label, goal, pos, props)
	fv.origin = ""
	fv.assumeInstead = ""
	if o != nil {
		o.Text = cl.Text
		o.Using = cl.Using
	}
	return o
}

func (fv *FV) defaultProps() []string {
	if fv.contract != nil {
		return fv.contract.Props
	}
	return nil
}

func shortPkg(p string) string {
	const mod = "github.com/buildbuildio/pebbles"
	if p == mod {
		return "pebbles"
	}
	if strings.HasPrefix(p, mod+"/") {
		return p[len(mod)+1:]
	}
	return p
}

// sourceExcerpt renders a short, line-number-free label for an instruction.
func (fv *FV) label(v interface{}) string {
	switch x := v.(type) {
	case string:
		return x
	}
	return "?"
}

// sorted heap keys for deterministic merging
func heapKeys(states []*State) []string {
	seen := map[string]bool{}
	for _, s := range states {
		for k := range s.heap {
			seen[k] = true
		}
	}
	ks := make([]string, 0, len(seen))
	for k := range seen {
		ks = append(ks, k)
	}
	sort.Strings(ks)
	return ks
}

// merge joins edge states into the entry state of a block.
func (fv *FV) merge(name string, edges []*State) *State {
	var live []*State
	for _, e := range edges {
		if e != nil && !e.dead {
			live = append(live, e)
		}
	}
	if len(live) == 0 {
		return &State{reach: "false", dead: true, cells: map[*ssa.Alloc]string{}, heap: map[string]string{}, iters: map[ssa.Value]string{}, lock: map[string]string{}, armed: map[*ssa.Defer]string{}, wm: fv.wm0}
	}
	if len(live) == 1 {
		s := live[0].clone()
		r := fv.freshConst("reach_"+name, "Bool")
		fv.assumeGlobal(eq(r, s.reach))
		s.reach = r
		return s
	}
	n := &State{cells: map[*ssa.Alloc]string{}, heap: map[string]string{}, iters: map[ssa.Value]string{}, lock: map[string]string{}, armed: map[*ssa.Defer]string{}}
	var conds []string
	for _, e := range live {
		conds = append(conds, e.reach)
	}
	r := fv.freshConst("reach_"+name, "Bool")
	fv.assumeGlobal(eq(r, or(conds...)))
	n.reach = r
	// cells
	cellSet := map[*ssa.Alloc]bool{}
	for _, e := range live {
		for c := range e.cells {
			cellSet[c] = true
		}
	}
	var cells []*ssa.Alloc
	for c := range cellSet {
		cells = append(cells, c)
	}
	sort.Slice(cells, func(i, j int) bool {
		return cells[i].Name() < cells[j].Name() || (cells[i].Name() == cells[j].Name() && cells[i].Pos() < cells[j].Pos())
	})
	for _, c := range cells {
		same := true
		first := ""
		all := true
		for i, e := range live {
			t, ok := e.cells[c]
			if !ok {
				all = false
				continue
			}
			if first == "" && i >= 0 {
				if first == "" {
					first = t
				}
			}
			if t != first {
				same = false
			}
		}
		if !all {
			// not allocated on every path: value only meaningful where allocated
			if same && first != "" {
				n.cells[c] = first
				continue
			}
		}
		if same {
			n.cells[c] = first
			continue
		}
		sort_ := fv.u.sortOf(c.Type().(*types.Pointer).Elem())
		nc := fv.freshConst("m_"+sanitize(c.Comment), sort_)
		for _, e := range live {
			if t, ok := e.cells[c]; ok {
				fv.assumeGlobal(implies(e.reach, eq(nc, t)))
			}
		}
		n.cells[c] = nc
	}
	// heap
	for _, k := range heapKeys(live) {
		f := fv.fams[k]
		same := true
		first := fv.famSym(live[0], f)
		for _, e := range live[1:] {
			if fv.famSym(e, f) != first {
				same = false
			}
		}
		if same {
			n.heap[k] = first
			continue
		}
		nv := fv.newVersion(f)
		ps, names := famParams(f)
		body := sx(fv.famSym(live[len(live)-1], f), names...)
		if len(names) == 0 {
			body = fv.famSym(live[len(live)-1], f)
		}
		for i := len(live) - 2; i >= 0; i-- {
			t := fv.famSym(live[i], f)
			if len(names) > 0 {
				t = sx(t, names...)
			}
			body = ite(live[i].reach, t, body)
		}
		fv.emit(fmt.Sprintf("(define-fun %s (%s) %s %s)", nv, ps, f.ResSort, body))
		n.heap[k] = nv
	}
	// watermark
	{
		same := true
		for _, e := range live[1:] {
			if e.wm != live[0].wm {
				same = false
			}
		}
		if same {
			n.wm = live[0].wm
		} else {
			nw := fv.freshConst("wm", "Int")
			for _, e := range live {
				fv.assumeGlobal(implies(e.reach, eq(nw, e.wm)))
			}
			n.wm = nw
		}
	}
	// iterators: keep those equal on all edges
	for it, sym := range live[0].iters {
		ok := true
		for _, e := range live[1:] {
			if e.iters[it] != sym {
				ok = false
			}
		}
		if ok {
			n.iters[it] = sym
		}
	}
	// armed defers
	{
		all := map[*ssa.Defer]bool{}
		for _, e := range live {
			for d := range e.armed {
				all[d] = true
			}
		}
		n.armed = map[*ssa.Defer]string{}
		for d := range all {
			same := true
			first, ok0 := live[0].armed[d]
			if !ok0 {
				first = "false"
			}
			for _, e := range live[1:] {
				t, ok := e.armed[d]
				if !ok {
					t = "false"
				}
				if t != first {
					same = false
				}
			}
			if same {
				n.armed[d] = first
				continue
			}
			nc := fv.freshConst("armed", "Bool")
			for _, e := range live {
				t, ok := e.armed[d]
				if !ok {
					t = "false"
				}
				fv.assumeGlobal(implies(e.reach, eq(nc, t)))
			}
			n.armed[d] = nc
		}
	}
	// locks
	lockKeys := map[string]bool{}
	for _, e := range live {
		for k := range e.lock {
			lockKeys[k] = true
		}
	}
	for _, k := range sortedKeys(lockKeys) {
		same := true
		first, ok0 := live[0].lock[k]
		if !ok0 {
			first = "0"
		}
		for _, e := range live[1:] {
			t, ok := e.lock[k]
			if !ok {
				t = "0"
			}
			if t != first {
				same = false
			}
		}
		if same {
			n.lock[k] = first
			continue
		}
		nc := fv.freshConst("lock", "Int")
		for _, e := range live {
			t, ok := e.lock[k]
			if !ok {
				t = "0"
			}
			fv.assumeGlobal(implies(e.reach, eq(nc, t)))
		}
		n.lock[k] = nc
	}
	// ghost call records: kept when every path that has one has the same one; valid on those paths only
	lastKeys := map[string]bool{}
	for _, e := range live {
		for k := range e.last {
			lastKeys[k] = true
		}
	}
	for _, k := range sortedKeys(lastKeys) {
		var rec *lastCall
		same := true
		var conds []string
		var recs []*lastCall
		var reaches []string
		for _, e := range live {
			r, ok := e.last[k]
			if !ok {
				continue
			}
			if rec == nil {
				rec = r
			}
			if r.snap != rec.snap {
				same = false
			}
			recs = append(recs, r)
			reaches = append(reaches, e.reach)
			conds = append(conds, and(e.reach, r.valid))
		}
		if rec == nil {
			continue
		}
		if !same {
			// different calls of the same function on the joining paths (if c { f(a) } else { f(b) }): the
			// record of "the last call" has the arguments and result of whichever path was taken; the state at
			// the call is not kept (atlast() is not available after such a join)
			ok := true
			for _, r := range recs {
				if len(r.args) != len(rec.args) || len(r.res) != len(rec.res) {
					ok = false
					break
				}
				for i := range r.args {
					if !types.Identical(r.args[i].ty, rec.args[i].ty) {
						ok = false
					}
				}
			}
			if !ok {
				continue
			}
			mergeVals := func(pick func(r *lastCall) []SVal) []SVal {
				var out []SVal
				for i, a := range pick(rec) {
					c := fv.freshConst("lastarg", fv.u.sortOf(a.ty))
					for j, r := range recs {
						fv.assumeGlobal(implies(reaches[j], eq(c, pick(r)[i].t)))
					}
					out = append(out, SVal{c, a.ty})
				}
				return out
			}
			if n.last == nil {
				n.last = map[string]*lastCall{}
			}
			n.last[k] = &lastCall{snap: nil, args: mergeVals(func(r *lastCall) []SVal { return r.args }), res: mergeVals(func(r *lastCall) []SVal { return r.res }), valid: or(conds...)}
			continue
		}
		if n.last == nil {
			n.last = map[string]*lastCall{}
		}
		n.last[k] = &lastCall{snap: rec.snap, args: rec.args, res: rec.res, valid: or(conds...)}
	}
	return n
}

func sanitize(s string) string {
	var b strings.Builder
	for _, r := range s {
		if r >= 'a' && r <= 'z' || r >= 'A' && r <= 'Z' || r >= '0' && r <= '9' || r == '_' {
			b.WriteRune(r)
		}
	}
	if b.Len() == 0 {
		return "v"
	}
	return b.String()
}
