package main

// Frame obligations decided by a conservative syntactic dataflow over the real SSA:
//
//	//@ reads-covered <pkg> <impl func> <param> by <key func> <param> except F1 F2 ... @props Cxx
//	    every access path (depth <= 2) that <impl func> (transitively, inside the repo) reads
//	    from the object its parameter points to is also read by <key func>, or is listed.
//
//	//@ immutable-outside <Type> [allow f1,f2...] @props Cxx
//	    no function outside the declaring package (except the listed ones) stores into a
//	    field of <Type>.
//
// Both are "frame" conditions: a reads-frame and a modifies-frame. A path through an
// unknown callee counts as "reads everything" (reported as uncovered).

import (
	"fmt"
	"go/ast"
	"go/token"
	"go/types"
	"reflect"
	"sort"
	"strconv"
	"strings"

	"golang.org/x/tools/go/ssa"
)

type FrameSpec struct {
	Kind   string // reads-covered | immutable-outside
	Pkg    string
	Text   string
	Props  []string
	Fields []string
	Line   int
	File   string
}

type readKey struct {
	fn  *ssa.Function
	idx int // parameter index, or -1-k for free variable k
}

// readsOf: access paths read from the object the given parameter points to.
func (e *Engine) readsOf(fn *ssa.Function, param int, memo map[readKey]map[string]bool, stack map[readKey]bool) map[string]bool {
	k := readKey{fn, param}
	if m, ok := memo[k]; ok {
		return m
	}
	if stack[k] {
		return map[string]bool{}
	}
	stack[k] = true
	defer delete(stack, k)
	out := map[string]bool{}
	if len(fn.Blocks) == 0 {
		out["*external:"+fn.String()] = true
		memo[k] = out
		return out
	}
	// taint: value -> access path prefix ("" = the object itself, "F" = the object ctx.F points to)
	taint := map[ssa.Value]string{}
	var root ssa.Value
	if param >= 0 {
		if param < len(fn.Params) {
			root = fn.Params[param]
		}
	} else if -1-param < len(fn.FreeVars) {
		root = fn.FreeVars[-1-param]
	}
	if root == nil {
		memo[k] = out
		return out
	}
	taint[root] = ""
	cellOf := map[ssa.Value]string{} // alloc cell holding a tainted pointer
	if param < 0 {
		// a captured variable is a cell holding the pointer
		cellOf[root] = ""
		delete(taint, root)
	}
	changed := true
	for changed {
		changed = false
		for _, b := range fn.Blocks {
			for _, ins := range b.Instrs {
				switch x := ins.(type) {
				case *ssa.Store:
					if p, ok := taint[x.Val]; ok {
						if _, seen := cellOf[x.Addr]; !seen {
							cellOf[x.Addr] = p
							changed = true
						}
					}
				case *ssa.UnOp:
					if p, ok := cellOf[x.X]; ok {
						if _, seen := taint[x]; !seen {
							taint[x] = p
							changed = true
						}
					}
					// load through a field address of a tainted object: the pointer stored in that field
					if fa, ok := x.X.(*ssa.FieldAddr); ok {
						if p, ok := taint[fa.X]; ok && strings.Count(p, ".") < 1 {
							st := fa.X.Type().Underlying().(*types.Pointer).Elem().Underlying().(*types.Struct)
							np := st.Field(fa.Field).Name()
							if p != "" {
								np = p + "." + np
							}
							if _, isPtr := x.Type().Underlying().(*types.Pointer); isPtr {
								if _, seen := taint[x]; !seen {
									taint[x] = np
									changed = true
								}
							}
						}
					}
				case *ssa.ChangeType:
					if p, ok := taint[x.X]; ok {
						if _, seen := taint[x]; !seen {
							taint[x] = p
							changed = true
						}
					}
				case *ssa.Phi:
					for _, ed := range x.Edges {
						if p, ok := taint[ed]; ok {
							if _, seen := taint[x]; !seen {
								taint[x] = p
								changed = true
							}
						}
					}
				}
			}
		}
	}
	for _, b := range fn.Blocks {
		for _, ins := range b.Instrs {
			switch x := ins.(type) {
			case *ssa.FieldAddr:
				if p, ok := taint[x.X]; ok {
					st := x.X.Type().Underlying().(*types.Pointer).Elem().Underlying().(*types.Struct)
					np := st.Field(x.Field).Name()
					if p != "" {
						np = p + "." + np
					}
					// only loads count as reads
					for _, r := range *x.Referrers() {
						if u, ok := r.(*ssa.UnOp); ok && u.X == x {
							out[np] = true
						}
					}
				}
			case ssa.CallInstruction:
				cc := x.Common()
				var callee *ssa.Function
				var bindings []ssa.Value
				switch c := cc.Value.(type) {
				case *ssa.Function:
					callee = c
				case *ssa.MakeClosure:
					callee = c.Fn.(*ssa.Function)
					bindings = c.Bindings
				}
				args := cc.Args
				for i, a := range args {
					p, ok := taint[a]
					if !ok {
						continue
					}
					if cc.IsInvoke() {
						if p == "" {
							out["*escapes:"+cc.Method.Name()] = true
						} else {
							out[p+".*"] = true
						}
						continue
					}
					if callee == nil {
						if p == "" {
							out["*escapes:dynamic call"] = true
						} else {
							out[p+".*"] = true
						}
						continue
					}
					inRepo := callee.Pkg != nil && e.inRepo(callee.Pkg.Pkg.Path()) || callee.Parent() != nil || (callee.Origin() != nil && callee.Origin().Pkg != nil && e.inRepo(callee.Origin().Pkg.Pkg.Path()))
					if !inRepo {
						if p == "" {
							out["*escapes:"+originName(callee)] = true
						} else {
							out[p+".*"] = true
						}
						continue
					}
					sub := e.readsOf(callee, i, memo, stack)
					for s := range sub {
						if strings.HasPrefix(s, "*") {
							out[s] = true
						} else if p == "" {
							out[s] = true
						} else if !strings.Contains(s, ".") {
							out[p+"."+s] = true
						} else {
							out[p+"."+strings.SplitN(s, ".", 2)[0]+".*"] = true
						}
					}
				}
				_ = bindings
			case *ssa.MakeClosure:
				cl := x.Fn.(*ssa.Function)
				for i, bnd := range x.Bindings {
					if p, ok := cellOf[bnd]; ok {
						sub := e.readsOf(cl, -1-i, memo, stack)
						for s := range sub {
							if strings.HasPrefix(s, "*") || p == "" {
								out[s] = true
							} else {
								out[p+"."+s] = true
							}
						}
					}
				}
			}
		}
	}
	memo[k] = out
	return out
}

func (e *Engine) findFuncAny(pkgHint, name string) *ssa.Function {
	if fn := e.findFunc(pkgHint, name); fn != nil {
		return fn
	}
	for k, fn := range e.funcs {
		if strings.HasSuffix(k, "::"+name) {
			return fn
		}
	}
	return nil
}

func paramIndex(fn *ssa.Function, name string) int {
	for i, p := range fn.Params {
		if p.Name() == name {
			return i
		}
	}
	return -1
}

// frameObligations evaluates the frame specs that serve a property.
func (e *Engine) frameObligations(prop string) []*Obligation {
	var out []*Obligation
	for _, fs := range e.contracts.Frames {
		if !hasProp(fs.Props, prop) {
			continue
		}
		switch fs.Kind {
		case "reads-covered":
			// <impl func> <param> by <key func> <param> except ...
			w := strings.Fields(fs.Text)
			byI := -1
			exI := len(w)
			for i, x := range w {
				if x == "by" {
					byI = i
				}
				if x == "except" {
					exI = i
				}
			}
			name := fmt.Sprintf("%s.%s#frame-reads{%s}", shortPkg(fs.Pkg), "frames", fs.Text)
			o := &Obligation{Name: name, Func: shortPkg(fs.Pkg) + ".frames", Kind: "frame-reads", Props: fs.Props, Expect: "unsat", Text: fs.Text, Pos: fmt.Sprintf("%s:%d", fs.File, fs.Line)}
			res := &SolveResult{Solver: "static-dataflow", Status: "unsat"}
			if byI < 2 || exI < byI+3 {
				res.Status, res.Detail = "error", "malformed reads-covered clause"
			} else {
				impl := e.findFuncAny(fs.Pkg, strings.Join(w[:byI-1], " "))
				key := e.findFuncAny(fs.Pkg, strings.Join(w[byI+1:exI-1], " "))
				if impl == nil || key == nil {
					res.Status, res.Detail = "error", "function not found"
				} else {
					pi, ki := paramIndex(impl, w[byI-1]), paramIndex(key, w[exI-1])
					if pi < 0 || ki < 0 {
						res.Status, res.Detail = "error", "parameter not found"
					} else {
						memo := map[readKey]map[string]bool{}
						ri := e.readsOf(impl, pi, memo, map[readKey]bool{})
						rk := e.readsOf(key, ki, memo, map[readKey]bool{})
						except := map[string]bool{}
						if exI < len(w) {
							for _, x := range w[exI+1:] {
								except[strings.Trim(x, ",")] = true
							}
						}
						var missing []string
						for p := range ri {
							if rk[p] || except[p] || except[strings.SplitN(p, ".", 2)[0]] {
								continue
							}
							// a field that is only a stepping stone (ctx.Operation) is covered when the key reads it too
							missing = append(missing, p)
						}
						sort.Strings(missing)
						if len(missing) > 0 {
							res.Status = "sat"
							res.Model = "read by " + impl.String() + " but not by " + key.String() + ": " + strings.Join(missing, ", ")
						}
						var rl, kl []string
						for p := range ri {
							rl = append(rl, p)
						}
						for p := range rk {
							kl = append(kl, p)
						}
						sort.Strings(rl)
						sort.Strings(kl)
						res.Detail = "reads(" + impl.Name() + ")={" + strings.Join(rl, ",") + "} reads(" + key.Name() + ")={" + strings.Join(kl, ",") + "}"
					}
				}
			}
			o.Result = res
			out = append(out, o)
		case "decodes":
			out = append(out, e.decodesObligation(fs))
		case "immutable-outside":
			w := strings.Fields(fs.Text)
			name := fmt.Sprintf("%s.%s#frame-modifies{%s}", shortPkg(fs.Pkg), "frames", fs.Text)
			o := &Obligation{Name: name, Func: shortPkg(fs.Pkg) + ".frames", Kind: "frame-modifies", Props: fs.Props, Expect: "unsat", Text: fs.Text, Pos: fmt.Sprintf("%s:%d", fs.File, fs.Line)}
			res := &SolveResult{Solver: "static-dataflow", Status: "unsat"}
			p := e.pkgByPath[fs.Pkg]
			var tn *types.TypeName
			if p != nil && len(w) > 0 {
				tn, _ = p.Types.Scope().Lookup(w[0]).(*types.TypeName)
			}
			if tn == nil {
				res.Status, res.Detail = "error", "type not found"
			} else {
				allow := map[string]bool{}
				for i, x := range w {
					if x == "allow" {
						for _, a := range w[i+1:] {
							allow[strings.Trim(a, ",")] = true
						}
					}
				}
				prefix := "H|" + typeKey(tn.Type()) + "|"
				var bad []string
				for _, fn := range e.allFuncs {
					pk := fn.Pkg
					if pk == nil && fn.Parent() != nil {
						pk = fn.Parent().Pkg
					}
					if pk == nil || pk.Pkg.Path() == fs.Pkg || allow[fn.Name()] || allow[fn.RelString(pk.Pkg)] {
						continue
					}
					if strings.HasSuffix(e.fset.Position(fn.Pos()).Filename, "_test.go") {
						continue
					}
					for _, b := range fn.Blocks {
						for _, ins := range b.Instrs {
							st, ok := ins.(*ssa.Store)
							if !ok {
								continue
							}
							m := map[string]bool{}
							e.storeKeys(st.Addr, m)
							for k := range m {
								if strings.HasPrefix(k, prefix) {
									// a store into a copy made by this function (cpy := *step) is fine
									if fa, ok := st.Addr.(*ssa.FieldAddr); ok {
										if _, fresh := fa.X.(*ssa.Alloc); fresh {
											continue
										}
									}
									bad = append(bad, fmt.Sprintf("%s writes %s (%s)", fn.String(), k[len(prefix):], e.fset.Position(st.Pos())))
								}
							}
						}
					}
				}
				sort.Strings(bad)
				if len(bad) > 0 {
					res.Status = "sat"
					res.Model = strings.Join(bad, "; ")
				}
			}
			o.Result = res
			out = append(out, o)
		}
	}
	return out
}

// ---------------------------------------------------------------------------
// decodes <query var> into <struct type>: every field the GraphQL query text selects has a struct field with
// that JSON key in the type the answer is decoded into (encoding/json drops keys without a field silently;
// what Unmarshal does is below the library model, so this is a static obligation over the query text and the
// struct tags of the real code).

type gqlSel struct {
	name   string // field name, or fragment name for a spread
	spread bool
	sub    []*gqlSel
}

// parseGqlSelections: a small parser for the selection syntax (names, aliases, arguments skipped, spreads,
// fragment definitions); enough for the introspection query.
func parseGqlSelections(text string) (ops [][]*gqlSel, frags map[string][]*gqlSel, err error) {
	var toks []string
	for i := 0; i < len(text); {
		c := text[i]
		switch {
		case c == ' ' || c == '\n' || c == '\t' || c == '\r' || c == ',':
			i++
		case c == '#':
			for i < len(text) && text[i] != '\n' {
				i++
			}
		case c == '{' || c == '}' || c == '(' || c == ')' || c == ':':
			toks = append(toks, string(c))
			i++
		case strings.HasPrefix(text[i:], "..."):
			toks = append(toks, "...")
			i += 3
		case c == '"':
			j := i + 1
			for j < len(text) && text[j] != '"' {
				j++
			}
			toks = append(toks, "\"str")
			i = j + 1
		default:
			j := i
			for j < len(text) && (text[j] == '_' || text[j] == '$' || text[j] == '!' || text[j] == '%' || text[j] == '[' || text[j] == ']' || text[j] >= '0' && text[j] <= '9' || text[j] >= 'a' && text[j] <= 'z' || text[j] >= 'A' && text[j] <= 'Z') {
				j++
			}
			if j == i {
				j = i + 1
			}
			toks = append(toks, text[i:j])
			i = j
		}
	}
	pos := 0
	var sels func() []*gqlSel
	sels = func() []*gqlSel {
		var out []*gqlSel
		for pos < len(toks) && toks[pos] != "}" {
			if toks[pos] == "..." {
				pos++
				if pos < len(toks) && toks[pos] == "on" { // inline fragment
					pos += 2
					if pos < len(toks) && toks[pos] == "{" {
						pos++
						out = append(out, sels()...)
						pos++
					}
					continue
				}
				out = append(out, &gqlSel{name: toks[pos], spread: true})
				pos++
				continue
			}
			name := toks[pos]
			pos++
			if pos < len(toks) && toks[pos] == ":" { // alias: the response key is the alias
				pos += 2
			}
			if pos < len(toks) && toks[pos] == "(" {
				depth := 0
				for pos < len(toks) {
					if toks[pos] == "(" {
						depth++
					}
					if toks[pos] == ")" {
						depth--
						if depth == 0 {
							pos++
							break
						}
					}
					pos++
				}
			}
			s := &gqlSel{name: name}
			if pos < len(toks) && toks[pos] == "{" {
				pos++
				s.sub = sels()
				pos++
			}
			out = append(out, s)
		}
		return out
	}
	frags = map[string][]*gqlSel{}
	for pos < len(toks) {
		switch toks[pos] {
		case "fragment":
			name := toks[pos+1]
			for pos < len(toks) && toks[pos] != "{" {
				pos++
			}
			pos++
			frags[name] = sels()
			pos++
		case "{":
			pos++
			ops = append(ops, sels())
			pos++
		default: // query Name (...) {
			for pos < len(toks) && toks[pos] != "{" {
				pos++
			}
			if pos >= len(toks) {
				return ops, frags, nil
			}
			pos++
			ops = append(ops, sels())
			pos++
		}
	}
	if len(ops) == 0 {
		return nil, nil, fmt.Errorf("no operation found in the query text")
	}
	return ops, frags, nil
}

func (e *Engine) decodesObligation(fs *FrameSpec) *Obligation {
	name := fmt.Sprintf("%s.%s#decodes{%s}", shortPkg(fs.Pkg), "frames", fs.Text)
	o := &Obligation{Name: name, Func: shortPkg(fs.Pkg) + ".frames", Kind: "decodes", Props: fs.Props, Expect: "unsat", Text: fs.Text, Pos: fmt.Sprintf("%s:%d", fs.File, fs.Line)}
	res := &SolveResult{Solver: "static-dataflow", Status: "unsat"}
	o.Result = res
	w := strings.Fields(fs.Text)
	if len(w) != 3 || w[1] != "into" {
		res.Status, res.Detail = "error", "want: decodes <query variable> into <struct type>"
		return o
	}
	p := e.pkgByPath[fs.Pkg]
	if p == nil {
		res.Status, res.Detail = "error", "package not found"
		return o
	}
	// the longest string literal in the initialiser of the variable is the query text
	text := ""
	for _, f := range p.Syntax {
		ast.Inspect(f, func(n ast.Node) bool {
			vs, ok := n.(*ast.ValueSpec)
			if !ok {
				return true
			}
			for i, id := range vs.Names {
				if id.Name != w[0] || i >= len(vs.Values) {
					continue
				}
				ast.Inspect(vs.Values[i], func(m ast.Node) bool {
					if bl, ok := m.(*ast.BasicLit); ok && bl.Kind == token.STRING {
						if s, err := strconv.Unquote(bl.Value); err == nil && len(s) > len(text) {
							text = s
						}
					}
					return true
				})
			}
			return true
		})
	}
	tn, _ := p.Types.Scope().Lookup(w[2]).(*types.TypeName)
	if text == "" || tn == nil {
		res.Status, res.Detail = "error", "query variable or struct type not found"
		return o
	}
	ops, frags, err := parseGqlSelections(text)
	if err != nil {
		res.Status, res.Detail = "error", err.Error()
		return o
	}
	var missing []string
	checked := 0
	seen := map[string]bool{}
	var walk func(sels []*gqlSel, t types.Type, where string)
	walk = func(sels []*gqlSel, t types.Type, where string) {
		for {
			switch tt := t.(type) {
			case *types.Pointer:
				t = tt.Elem()
				continue
			case *types.Slice:
				t = tt.Elem()
				continue
			}
			break
		}
		st, ok := t.Underlying().(*types.Struct)
		if !ok {
			return // decoded into interface{} / a scalar: everything is kept or nothing is expected
		}
		tname := where
		if n, ok := t.(*types.Named); ok {
			tname = n.Obj().Name()
		}
		for _, s := range sels {
			if s.spread {
				if !seen[tname+"..."+s.name] {
					seen[tname+"..."+s.name] = true
					walk(frags[s.name], t, tname)
				}
				continue
			}
			if strings.HasPrefix(s.name, "__typename") {
				continue
			}
			var field *types.Var
			for i := 0; i < st.NumFields(); i++ {
				key := strings.Split(reflect.StructTag(st.Tag(i)).Get("json"), ",")[0]
				if key == "" {
					key = st.Field(i).Name()
				}
				if key == s.name {
					field = st.Field(i)
				}
			}
			checked++
			if field == nil {
				missing = append(missing, tname+"."+s.name)
				continue
			}
			if s.sub != nil {
				walk(s.sub, field.Type(), tname+"."+s.name)
			}
		}
	}
	for _, op := range ops {
		walk(op, tn.Type(), w[2])
	}
	sort.Strings(missing)
	res.Detail = fmt.Sprintf("%d selected fields checked against the JSON keys of %s", checked, w[2])
	if checked == 0 {
		res.Status, res.Detail = "error", "nothing to check: the query text selects no field (vacuous)"
	}
	if len(missing) > 0 {
		res.Status = "sat"
		res.Model = "selected by the query but decoded by no struct field (the answer's value is dropped silently): " + strings.Join(missing, ", ")
	}
	return o
}
