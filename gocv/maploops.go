package main

import (
	"fmt"
	"go/types"
	"os"
	"strings"

	"golang.org/x/tools/go/ssa"
)

func listMapLoops() {
	eng, err := loadEngine(os.Args[2])
	if err != nil {
		panic(err)
	}
	n := 0
	for _, fn := range eng.allFuncs {
		if strings.HasSuffix(eng.fset.Position(fn.Pos()).Filename, "_test.go") {
			continue
		}
		for _, b := range fn.Blocks {
			for _, ins := range b.Instrs {
				r, ok := ins.(*ssa.Range)
				if !ok {
					continue
				}
				if _, ok := r.X.Type().Underlying().(*types.Map); !ok {
					continue
				}
				n++
				fmt.Printf("%s  %s  map=%s\n", fn.RelString(nil), eng.fset.Position(r.Pos()), r.X.Type())
			}
		}
	}
	fmt.Println(n, "map range loops")
}
