package main

import (
	"fmt"
	"go/token"
	"go/types"
	"sort"
	"strings"

	"golang.org/x/tools/go/ssa"
)

type frame struct {
	items  []modItem
	wmBase string // objects with ref >= wmBase were allocated inside the frame's scope
	what   string
	blocks map[*ssa.BasicBlock]bool // nil = whole function
	direct bool                     // applies to the store instructions of the body only, not to callees
}

func (eng *Engine) newFV(fn *ssa.Function, c *Contract, pre []*Family) *FV {
	fv := &FV{
		eng: eng, u: eng.u, fn: fn, contract: c,
		fams: map[string]*Family{}, declared: map[string]bool{},
		vals: map[ssa.Value]string{}, tuples: map[ssa.Value][]string{}, ptrs: map[ssa.Value]*Loc{},
		closures: map[ssa.Value]*ssa.MakeClosure{},
		blockOut: map[*ssa.BasicBlock]*State{}, edgeSt: map[[2]int]*State{},
		loops: map[*ssa.BasicBlock]*LoopInfo{}, kindCount: map[string]int{},
		unmodelled: map[string]bool{}, assumptionsUsed: map[string]bool{}, calleesUsed: map[string]bool{},
		safetyOff: map[string]bool{}, preFams: pre, rootOf: map[string]string{}, refKinds: map[string]string{}, guardOf: map[string]string{},
	}
	pkg := fn.Pkg
	if pkg == nil && fn.Parent() != nil {
		pkg = fn.Parent().Pkg
	}
	fv.pkgPath = pkg.Pkg.Path()
	fv.relName = fn.RelString(pkg.Pkg)
	if c != nil {
		for k := range c.NoSafety {
			fv.safetyOff[k] = true
		}
	}
	return fv
}

func (fv *FV) pkgTypes() *types.Package {
	if fv.fn.Pkg != nil {
		return fv.fn.Pkg.Pkg
	}
	return fv.fn.Parent().Pkg.Pkg
}

func (fv *FV) newSpecCtx(pkg *types.Package, st, old *State) *SpecCtx {
	return &SpecCtx{fv: fv, vars: map[string]SVal{}, st: st, old: old, pkg: pkg, scope: fv.eng.contractScope[pkg.Path()]}
}

// refinements verifies every repo implementation of an interface method against the
// contract declared on the interface method.
func (eng *Engine) refinements(c *Contract) []*fres {
	p := eng.pkgByPath[c.Pkg]
	if p == nil {
		return nil
	}
	i := strings.Index(c.FuncName, ".")
	tn, ok := p.Types.Scope().Lookup(c.FuncName[:i]).(*types.TypeName)
	if !ok {
		return nil
	}
	named, ok := tn.Type().(*types.Named)
	if !ok {
		return nil
	}
	it, ok := named.Underlying().(*types.Interface)
	if !ok {
		return nil
	}
	method := c.FuncName[i+1:]
	var msig *types.Signature
	for k := 0; k < it.NumMethods(); k++ {
		if it.Method(k).Name() == method {
			msig = it.Method(k).Type().(*types.Signature)
		}
	}
	if msig == nil {
		return nil
	}
	var out []*fres
	for _, impl := range eng.implementations(named, method) {
		if impl.Synthetic != "" || len(impl.Blocks) == 0 {
			continue
		}
		c2 := *c
		c2.Loops = map[int]*LoopSpec{}
		c2.Folds = map[int]*FoldSpec{}
		if own := eng.contractFor(impl); own != nil {
			c2.Loops = own.Loops
			c2.Folds = own.Folds
			c2.NoSafety = own.NoSafety
			// the implementation's own preconditions are its object invariant, assumed at method entry
			c2.Assumes = append(append([]*Clause{}, c.Assumes...), own.Requires...)
			if own.ModAssumed {
				c2.ModAssumed = true
			}
		}
		alias := map[string]string{}
		if len(impl.Params) > 0 {
			alias["self"] = impl.Params[0].Name()
		}
		names := paramNames(msig)
		for k := range names {
			if k < len(c.ParamNames) {
				names[k] = c.ParamNames[k]
			}
		}
		for k, n := range names {
			if k+1 < len(impl.Params) {
				alias[n] = impl.Params[k+1].Name()
			}
		}
		fv := eng.verifyFunctionAlias(impl, &c2, alias, "~"+c.FuncName)
		cc := c2
		cc.Pkg = impl.Pkg.Pkg.Path()
		cc.FuncName = impl.RelString(impl.Pkg.Pkg) + "~" + c.FuncName
		out = append(out, &fres{c: &cc, fn: impl, fv: fv})
	}
	return out
}

func (eng *Engine) verifyFunctionAlias(fn *ssa.Function, c *Contract, alias map[string]string, suffix string) *FV {
	var pre []*Family
	var fv *FV
	for pass := 0; pass < 4; pass++ {
		fv = eng.newFV(fn, c, pre)
		fv.alias = alias
		fv.relName += suffix
		fv.run()
		if len(fv.famOrder) == len(pre) {
			break
		}
		pre = nil
		for _, k := range fv.famOrder {
			f := fv.fams[k]
			pre = append(pre, &Family{Key: f.Key, ArgSorts: f.ArgSorts, ResSort: f.ResSort, RefKind: f.RefKind})
		}
	}
	return fv
}

// verifyFunction runs the symbolic execution (twice: the first pass discovers the
// heap families, the second has them all declared at entry) and returns the
// obligations.
func (eng *Engine) verifyFunction(fn *ssa.Function, c *Contract) *FV {
	var pre []*Family
	var fv *FV
	for pass := 0; pass < 4; pass++ {
		fv = eng.newFV(fn, c, pre)
		fv.run()
		if len(fv.famOrder) == len(pre) {
			break
		}
		pre = nil
		for _, k := range fv.famOrder {
			f := fv.fams[k]
			pre = append(pre, &Family{Key: f.Key, ArgSorts: f.ArgSorts, ResSort: f.ResSort, RefKind: f.RefKind})
		}
	}
	return fv
}

func (fv *FV) run() {
	fn := fv.fn
	if len(fn.Blocks) == 0 {
		return
	}
	st := &State{reach: "true", cells: map[*ssa.Alloc]string{}, heap: map[string]string{}, iters: map[ssa.Value]string{}, lock: map[string]string{}, armed: map[*ssa.Defer]string{}}
	fv.wm0 = "wm!0"
	fv.declConst(fv.wm0, "Int")
	fv.assumeGlobal(sx(">=", fv.wm0, "1"))
	st.wm = fv.wm0
	for _, f := range fv.preFams {
		fv.refKinds[f.Key] = f.RefKind
		fv.family(f.Key, f.ArgSorts, f.ResSort)
		if f.Key == "GL|lock" {
			fv.assumeGlobal("(forall ((r Int)) (= (" + fv.fams[f.Key].Short + "_0 r) 0))")
		}
	}
	fv.newFam = false
	fv.params = map[string]SVal{}
	for _, p := range fn.Params {
		c := "p_" + sanitize(p.Name())
		fv.declConst(c, fv.u.sortOf(p.Type()))
		fv.vals[p] = c
		fv.assumeGlobal(fv.valid(c, p.Type(), fv.wm0))
		fv.params[p.Name()] = SVal{c, p.Type()}
	}
	for cn, in := range fv.alias {
		if v, ok := fv.params[in]; ok {
			fv.params[cn] = v
		}
	}
	for _, f := range fn.FreeVars {
		c := "fv_" + sanitize(f.Name())
		fv.declConst(c, "Int")
		fv.vals[f] = c
		fv.assumeGlobal(and(sx("<", c, fv.wm0), sx(">", c, "0")))
	}
	// distinct captured cells of the same type are distinct objects
	for i, f := range fn.FreeVars {
		for j := i + 1; j < len(fn.FreeVars); j++ {
			if types.Identical(f.Type(), fn.FreeVars[j].Type()) {
				fv.assumeGlobal(sx("distinct", fv.vals[f], fv.vals[fn.FreeVars[j]]))
			}
		}
	}
	fv.entry = st.clone()
	// requires
	if c := fv.contract; c != nil {
		ctx := fv.entryCtx(st)
		for _, r := range append(append([]*Clause{}, c.Requires...), c.Assumes...) {
			t, err := fv.trySpec(ctx, r)
			if err != nil {
				fv.specErrs = append(fv.specErrs, fmt.Sprintf("%s: requires: %v", fv.relName, err))
				continue
			}
			fv.origin = r.Name
			fv.assumeGlobal(t)
			fv.origin = ""
		}
		if c.HasMod && !c.ModAssumed {
			items, err := fv.modItems(ctx, c.Modifies)
			if err != nil {
				fv.specErrs = append(fv.specErrs, fmt.Sprintf("%s: modifies: %v", fv.relName, err))
			} else {
				fv.frames = append(fv.frames, &frame{items: items, wmBase: fv.wm0, what: "function modifies"})
			}
		}
		if c.HasStores {
			items, err := fv.modItems(ctx, c.Stores)
			if err != nil {
				fv.specErrs = append(fv.specErrs, fmt.Sprintf("%s: stores: %v", fv.relName, err))
			} else {
				fv.frames = append(fv.frames, &frame{items: items, wmBase: fv.wm0, what: "function stores", direct: true})
			}
		}
	}
	fv.entry = st.clone()
	// vacuity guard: the preconditions must be satisfiable
	fv.obls = append(fv.obls, &Obligation{
		Name: fmt.Sprintf("%s.%s#cover{entry}", shortPkg(fv.pkgPath), fv.relName), Func: shortPkg(fv.pkgPath) + "." + fv.relName,
		Kind: "cover", Guard: "true", Goal: "false", Prefix: len(fv.script), Expect: "sat", Props: fv.defaultProps(),
	})

	fv.findLoops()
	order := rpo(fn)
	for _, b := range order {
		var in *State
		if b == fn.Blocks[0] {
			in = st
		} else {
			var edges []*State
			for _, p := range b.Preds {
				if fv.isBackEdge(p, b) {
					continue
				}
				if es := fv.edgeSt[[2]int{p.Index, b.Index}]; es != nil {
					edges = append(edges, es)
				}
			}
			in = fv.merge(fmt.Sprintf("b%d", b.Index), edges)
		}
		if li := fv.loops[b]; li != nil && !in.dead {
			in = fv.loopHead(li, in)
		}
		fv.curBlock = b
		// vacuity guard: the block is reachable under the assumptions collected so far
		if !in.dead && b != fn.Blocks[0] && len(b.Instrs) > 1 {
			fv.obls = append(fv.obls, &Obligation{
				Name: fmt.Sprintf("%s.%s#cover{block %d %s}", shortPkg(fv.pkgPath), fv.relName, b.Index, b.Comment), Func: shortPkg(fv.pkgPath) + "." + fv.relName,
				Kind: "cover", Guard: in.reach, Goal: "false", Prefix: len(fv.script), Expect: "sat", Props: fv.defaultProps(), Region: fv.region,
			})
		}
		for _, ins := range b.Instrs {
			if in.dead {
				break
			}
			fv.exec(in, ins)
		}
		fv.blockOut[b] = in
		if in.dead || len(b.Instrs) == 0 {
			continue
		}
		switch t := b.Instrs[len(b.Instrs)-1].(type) {
		case *ssa.If:
			cond := fv.val(in, t.Cond)
			for i, s := range b.Succs {
				es := in.clone()
				cnd := cond
				if i == 1 {
					cnd = not(cond)
				}
				ec := fv.freshConst(fmt.Sprintf("e_%d_%d", b.Index, s.Index), "Bool")
				fv.assumeGlobal(eq(ec, and(in.reach, cnd)))
				es.reach = ec
				fv.setEdge(b, s, es)
			}
		case *ssa.Jump:
			fv.setEdge(b, b.Succs[0], in.clone())
		case *ssa.Return:
			fv.doReturn(in, t)
		}
	}
}

func (fv *FV) setEdge(from, to *ssa.BasicBlock, es *State) {
	if fv.isBackEdge(from, to) {
		fv.loopBack(fv.loops[to], es)
		return
	}
	fv.edgeSt[[2]int{from.Index, to.Index}] = es
}

func rpo(fn *ssa.Function) []*ssa.BasicBlock {
	seen := map[*ssa.BasicBlock]bool{}
	var post []*ssa.BasicBlock
	var dfs func(b *ssa.BasicBlock)
	dfs = func(b *ssa.BasicBlock) {
		seen[b] = true
		for _, s := range b.Succs {
			if !seen[s] {
				dfs(s)
			}
		}
		post = append(post, b)
	}
	dfs(fn.Blocks[0])
	for i, j := 0, len(post)-1; i < j; i, j = i+1, j-1 {
		post[i], post[j] = post[j], post[i]
	}
	return post
}

func (fv *FV) isBackEdge(from, to *ssa.BasicBlock) bool {
	return to.Dominates(from)
}

func (fv *FV) findLoops() {
	fn := fv.fn
	for _, b := range fn.Blocks {
		for _, s := range b.Succs {
			if fv.isBackEdge(b, s) {
				li := fv.loops[s]
				if li == nil {
					li = &LoopInfo{head: s, blocks: map[*ssa.BasicBlock]bool{s: true}}
					fv.loops[s] = li
				}
				// natural loop: nodes that reach b without passing through s
				var stack []*ssa.BasicBlock
				if !li.blocks[b] {
					li.blocks[b] = true
					stack = append(stack, b)
				}
				for len(stack) > 0 {
					n := stack[len(stack)-1]
					stack = stack[:len(stack)-1]
					for _, p := range n.Preds {
						if !li.blocks[p] {
							li.blocks[p] = true
							stack = append(stack, p)
						}
					}
				}
			}
		}
	}
	var heads []*ssa.BasicBlock
	for h := range fv.loops {
		heads = append(heads, h)
	}
	sort.Slice(heads, func(i, j int) bool { return heads[i].Index < heads[j].Index })
	for i, h := range heads {
		li := fv.loops[h]
		li.ord = i
		if fv.contract != nil {
			li.spec = fv.contract.Loops[i]
		}
		// range-over-slice loops
		if h.Comment == "rangeindex.loop" {
			for _, ins := range h.Instrs {
				if u, ok := ins.(*ssa.UnOp); ok && u.Op == token.MUL {
					if a, ok := u.X.(*ssa.Alloc); ok && a.Comment == "rangeindex" {
						li.rangeIdx = a
					}
				}
				if bo, ok := ins.(*ssa.BinOp); ok && bo.Op == token.LSS {
					li.rangeLenV = bo.Y
				}
			}
		}
		if h.Comment == "rangeiter.loop" {
			for _, ins := range h.Instrs {
				if nx, ok := ins.(*ssa.Next); ok {
					li.mapIter = nx.Iter
				}
			}
		}
	}
	fv.loopOrd = heads
}

// localByName finds the alloc cell for a source variable, preferring the
// innermost declaration that dominates the given block.
func (fv *FV) localByName(name string, at *ssa.BasicBlock) *ssa.Alloc {
	var best *ssa.Alloc
	for _, b := range fv.fn.Blocks {
		for _, ins := range b.Instrs {
			a, ok := ins.(*ssa.Alloc)
			if !ok || a.Comment != name {
				continue
			}
			if at != nil && !(b == at || b.Dominates(at)) {
				continue
			}
			if best == nil || a.Pos() > best.Pos() {
				best = a
			}
		}
	}
	return best
}

func (fv *FV) cellVarsOf() map[string]SVal {
	m := map[string]SVal{}
	for _, f := range fv.fn.FreeVars {
		m[f.Name()] = SVal{fv.vals[f], f.Type()}
	}
	return m
}

// entryCtx: names denote entry values of parameters; captured variables by name.
func (fv *FV) entryCtx(st *State) *SpecCtx {
	ctx := fv.newSpecCtx(fv.pkgTypes(), st, nil)
	for k, v := range fv.params {
		ctx.vars[k] = v
	}
	ctx.cellVars = fv.cellVarsOf()
	return ctx
}

// loopCtx: names denote the current values of locals (name0 = entry value of a parameter).
func (fv *FV) loopCtx(li *LoopInfo, st *State) *SpecCtx {
	ctx := fv.newSpecCtx(fv.pkgTypes(), st, fv.entry)
	for k, v := range fv.params {
		ctx.vars[k+"0"] = v
	}
	ctx.cellVars = fv.cellVarsOf()
	// freshloop(x): allocated since this loop was entered
	if li.preSt != nil {
		ctx.loopBase = li.preSt.wm
		ctx.loopPre = li.preSt
	} else {
		ctx.loopBase = st.wm
		ctx.loopPre = st
	}
	head := li.head
	ctx.lookup = func(name string, s *State) (SVal, bool) {
		a := fv.localByName(name, head)
		if a == nil {
			if v, ok := fv.params[name]; ok {
				return v, true
			}
			return SVal{}, false
		}
		elem := a.Type().Underlying().(*types.Pointer).Elem()
		l := fv.locOf(s, a)
		return SVal{fv.loadLoc(s, l), elem}, true
	}
	if li.rangeIdx != nil {
		idx := st.cells[li.rangeIdx]
		ctx.vars["it"] = SVal{sx("+", idx, "1"), tInt}
	}
	if li.mapIter != nil {
		if sym, ok := st.iters[li.mapIter]; ok {
			ctx.seen = func(k SVal) string { return sx(sym, k.t) }
		}
	} else {
		// inside the body of a map-range loop, seen() refers to the innermost enclosing one
		var best *LoopInfo
		for _, other := range fv.loops {
			if other != li && other.mapIter != nil && other.blocks[li.head] {
				if best == nil || len(other.blocks) < len(best.blocks) {
					best = other
				}
			}
		}
		if best != nil {
			if sym, ok := st.iters[best.mapIter]; ok {
				ctx.seen = func(k SVal) string { return sx(sym, k.t) }
			}
		}
	}
	return ctx
}

func (fv *FV) loopHead(li *LoopInfo, in *State) *State {
	li.preSt = nil
	ctx := fv.loopCtx(li, in)
	var invs []*Clause
	if li.spec != nil {
		invs = li.spec.Invariants
	}
	if li.spec != nil {
		for i, a := range li.spec.Entry {
			fv.obligeSpec(in, "assert", fmt.Sprintf("loop%d entry:%s", li.ord, clauseLabel(a, i)), ctx, a, li.head.Instrs[0].Pos(), a.Props, fmt.Sprintf("loop %d entry assertion", li.ord))
		}
	}
	for i, inv := range invs {
		fv.obligeSpec(in, "inv-init", fmt.Sprintf("loop%d:%s", li.ord, clauseLabel(inv, i)), ctx, inv, li.head.Instrs[0].Pos(), inv.Props, fmt.Sprintf("loop %d invariant", li.ord))
	}
	li.preSt = in.clone()
	h := in.clone()
	h.last = nil // ghost call records do not survive a loop head (the body may call the function again)
	// havoc cells assigned in the loop
	cells, keys := fv.loopWrites(li)
	for _, a := range cells {
		if _, ok := h.cells[a]; !ok {
			continue // allocated inside the loop: re-initialised on each iteration
		}
		elem := a.Type().Underlying().(*types.Pointer).Elem()
		c := fv.freshConst("lh_"+sanitize(a.Comment), fv.u.sortOf(elem))
		h.cells[a] = c
	}
	nw := fv.freshConst("wm", "Int")
	fv.assume(h, sx(">=", nw, in.wm))
	h.wm = nw
	// heap
	var fr *frame
	if li.spec != nil && li.spec.HasMod {
		items, err := fv.modItems(ctx, li.spec.Modifies)
		if err != nil {
			fv.specErrs = append(fv.specErrs, fmt.Sprintf("%s: loop %d modifies: %v", fv.relName, li.ord, err))
			fv.havocKeys(h, keys, fmt.Sprintf("loop %d", li.ord))
		} else {
			fr = &frame{items: items, wmBase: in.wm, what: fmt.Sprintf("loop %d modifies", li.ord), blocks: li.blocks}
			byFam := map[string][]string{}
			for _, it := range items {
				if it.all {
					keys = map[string]bool{"*": true}
				}
				if it.fam != nil {
					byFam[it.fam.Key] = append(byFam[it.fam.Key], it.cond)
				}
			}
			if keys["*"] {
				fv.havocAll(h, fmt.Sprintf("loop %d", li.ord))
			} else {
				ks := make([]string, 0, len(keys))
				for k := range keys {
					ks = append(ks, k)
				}
				sort.Strings(ks)
				for _, k := range ks {
					f, ok := fv.fams[k]
					if !ok {
						fv.eng.materialise(fv, k)
						f, ok = fv.fams[k]
						if !ok {
							continue
						}
					}
					_, names := famParams(f)
					conds := append([]string{}, byFam[k]...)
					if len(names) > 0 {
						conds = append(conds, sx(">=", names[0], in.wm)) // objects allocated by earlier iterations
					}
					fv.havocFamily(h, f, or(conds...))
				}
			}
		}
	} else {
		fv.havocKeys(h, keys, fmt.Sprintf("loop %d", li.ord))
	}
	h.wm = nw
	if fr != nil {
		fv.frames = append(fv.frames, fr)
	}
	// map-range iterator: arbitrary visited set
	if li.mapIter != nil {
		if rng, ok := li.mapIter.(*ssa.Range); ok {
			mm := rng.X.Type().Underlying().(*types.Map)
			sym := fv.fresh("seen")
			fv.emit(fmt.Sprintf("(declare-fun %s (%s) Bool)", sym, fv.u.sortOf(mm.Key())))
			h.iters[li.mapIter] = sym
		}
	}
	// validity of havocked cells
	for _, a := range cells {
		if c, ok := h.cells[a]; ok {
			fv.assume(h, fv.valid(c, a.Type().Underlying().(*types.Pointer).Elem(), h.wm))
		}
	}
	// automatic facts for range-over-slice loops
	if li.rangeIdx != nil && li.rangeLenV != nil {
		idx := h.cells[li.rangeIdx]
		ln := fv.val(h, li.rangeLenV)
		fv.assume(h, and(sx("<=", "(- 1)", idx), sx("<=", idx, sx("-", ln, "1"))))
	}
	// assume the invariants
	hctx := fv.loopCtx(li, h)
	for _, inv := range invs {
		if t, err := fv.trySpec(hctx, inv); err == nil {
			fv.origin = inv.Name
			fv.assume(h, t)
			fv.origin = ""
		}
	}
	li.havocSt = h.clone()
	return h
}

func (fv *FV) loopBack(li *LoopInfo, es *State) {
	if li == nil || es.dead {
		return
	}
	if li.spec == nil {
		return
	}
	ctx := fv.loopCtx(li, es)
	for i, inv := range li.spec.Invariants {
		fv.obligeSpec(es, "inv-keep", fmt.Sprintf("loop%d:%s", li.ord, clauseLabel(inv, i)), ctx, inv, li.head.Instrs[0].Pos(), inv.Props, fmt.Sprintf("loop %d invariant", li.ord))
	}
	if len(li.spec.Steps) > 0 && li.havocSt != nil {
		sctx := *ctx
		sctx.loopHead = li.havocSt
		for i, stp := range li.spec.Steps {
			fv.obligeSpec(es, "step", fmt.Sprintf("loop%d:%s", li.ord, clauseLabel(stp, i)), &sctx, stp, li.head.Instrs[0].Pos(), stp.Props, fmt.Sprintf("loop %d step", li.ord))
		}
	}
}

// loopWrites: register cells assigned and heap families written inside a loop.
func (fv *FV) loopWrites(li *LoopInfo) ([]*ssa.Alloc, map[string]bool) {
	cellSet := map[*ssa.Alloc]bool{}
	keys := map[string]bool{}
	visit := func(f *ssa.Function) map[string]bool { return fv.eng.modFamilies(f) }
	for b := range li.blocks {
		for _, ins := range b.Instrs {
			switch x := ins.(type) {
			case *ssa.Store:
				if a, ok := x.Addr.(*ssa.Alloc); ok {
					elem := a.Type().Underlying().(*types.Pointer).Elem()
					_, isSt := elem.Underlying().(*types.Struct)
					_, isArr := elem.Underlying().(*types.Array)
					if !isSt && !isArr {
						if a.Heap {
							keys["C|"+typeKey(elem)] = true
						} else {
							cellSet[a] = true
						}
						continue
					}
				}
			case ssa.CallInstruction:
				for _, a := range x.Common().Args {
					if mi, ok := a.(*ssa.MakeInterface); ok {
						a = mi.X
					}
					if al, ok := a.(*ssa.Alloc); ok {
						elem := al.Type().Underlying().(*types.Pointer).Elem()
						if al.Heap {
							if _, isSt := elem.Underlying().(*types.Struct); isSt {
								addFieldKeys(keys, elem)
							} else {
								keys["C|"+typeKey(elem)] = true
							}
						} else {
							cellSet[al] = true
						}
					}
				}
			}
			fv.eng.instrWrites(fv.fn, ins, keys, visit)
			// writes to fresh struct objects / local arrays inside the loop also change their families
			if s, ok := ins.(*ssa.Store); ok {
				if fa, ok := s.Addr.(*ssa.FieldAddr); ok {
					_ = fa
				}
				if ia, ok := s.Addr.(*ssa.IndexAddr); ok {
					if pt, ok := ia.X.Type().Underlying().(*types.Pointer); ok {
						if arr, ok := pt.Elem().Underlying().(*types.Array); ok {
							keys["SE|"+typeKey(arr.Elem())] = true
						}
					}
				}
			}
			if a, ok := ins.(*ssa.Alloc); ok {
				elem := a.Type().Underlying().(*types.Pointer).Elem()
				if _, isSt := elem.Underlying().(*types.Struct); isSt {
					addFieldKeys(keys, elem)
				} else if arr, isArr := elem.Underlying().(*types.Array); isArr {
					keys["SE|"+typeKey(arr.Elem())] = true
				} else if a.Heap {
					keys["C|"+typeKey(elem)] = true
				}
			}
			switch x := ins.(type) {
			case *ssa.MakeMap:
				k := mapKey(x.Type())
				keys["MD|"+k], keys["MC|"+k] = true, true
			case *ssa.MakeSlice:
				el := x.Type().Underlying().(*types.Slice).Elem()
				if _, isSt := el.Underlying().(*types.Struct); !isSt {
					keys["SE|"+typeKey(el)] = true
				}
			case *ssa.Convert:
				if sl, ok := x.Type().Underlying().(*types.Slice); ok {
					keys["SE|"+typeKey(sl.Elem())] = true
				}
			}
		}
	}
	var cells []*ssa.Alloc
	for a := range cellSet {
		cells = append(cells, a)
	}
	sort.Slice(cells, func(i, j int) bool {
		return cells[i].Pos() < cells[j].Pos() || (cells[i].Pos() == cells[j].Pos() && cells[i].Name() < cells[j].Name())
	})
	return cells, keys
}

func (fv *FV) doReturn(st *State, ret *ssa.Return) {
	c := fv.contract
	// cover: the return is reachable
	fv.retCount++
	fv.obls = append(fv.obls, &Obligation{
		Name: fmt.Sprintf("%s.%s#cover{return %d}", shortPkg(fv.pkgPath), fv.relName, fv.retCount), Func: shortPkg(fv.pkgPath) + "." + fv.relName,
		Kind: "cover", Guard: st.reach, Goal: "false", Prefix: len(fv.script), Expect: "sat", Props: fv.defaultProps(),
	})
	if lf, ok := fv.fams["GL|lock"]; ok {
		seen := map[string]bool{}
		for _, k := range fv.lockKeys {
			if seen[k] {
				continue
			}
			seen[k] = true
			fv.oblige(st, "lock", "released at return", eq(fv.read(st, lf, k), "0"), ret.Pos(), nil)
		}
	}
	if c == nil {
		return
	}
	sig := fv.fn.Signature
	ctx := fv.newSpecCtx(fv.pkgTypes(), st, fv.entry)
	for k, v := range fv.params {
		ctx.vars[k] = v
	}
	ctx.cellVars = fv.cellVarsOf()
	rnames := fv.resultNames(c, sig)
	for i, r := range ret.Results {
		ctx.vars[rnames[i]] = SVal{fv.val(st, r), sig.Results().At(i).Type()}
	}
	if len(ret.Results) == 1 {
		ctx.vars["result"] = SVal{fv.val(st, ret.Results[0]), sig.Results().At(0).Type()}
	}
	for i, e := range c.Ensures {
		fv.obligeSpec(st, "ensures", clauseLabel(e, i), ctx, e, ret.Pos(), e.Props, "ensures")
	}
}

// ---------------------------------------------------------------------------
// frame obligations

func substParams(cond string, args []string) string {
	if cond == "true" || cond == "false" {
		return cond
	}
	var bs []string
	for i, a := range args {
		if i < len(argNames) && strings.Contains(cond, argNames[i]) {
			bs = append(bs, fmt.Sprintf("(%s %s)", argNames[i], a))
		}
	}
	if len(bs) == 0 {
		return cond
	}
	return fmt.Sprintf("(let (%s) %s)", strings.Join(bs, " "), cond)
}

func (fv *FV) activeFrames() []*frame {
	var fs []*frame
	for _, f := range fv.frames {
		if f.blocks == nil || f.blocks[fv.curBlock] {
			fs = append(fs, f)
		}
	}
	return fs
}

func (fv *FV) frameCheck(st *State, f *Family, args []string, what string) {
	fv.frameCheckCond(st, f, "true", args, what)
}

func (fv *FV) frameCheckCond(st *State, f *Family, guard string, args []string, what string) {
	if len(f.ArgSorts) == 0 || strings.HasPrefix(f.Key, "G|") {
		return
	}
	for _, fr := range fv.activeFrames() {
		if fr.direct && fv.inCalleeFrame {
			continue
		}
		var alts []string
		root := args[0]
		for i := 0; i < 4; i++ {
			if r, ok := fv.rootOf[root]; ok {
				root = r
			} else {
				break
			}
		}
		alts = append(alts, sx(">=", root, fr.wmBase))
		all := false
		for _, it := range fr.items {
			if it.all {
				all = true
			}
			if it.fam != nil && it.fam.Key == f.Key {
				alts = append(alts, substParams(it.cond, args))
			}
		}
		if all {
			continue
		}
		pos := token.NoPos
		if fv.curInstr != nil {
			pos = fv.curInstr.Pos()
		}
		label := fv.srcLabel(pos, what)
		fv.oblige(st, "frame", fmt.Sprintf("%s: %s", fr.what, label), implies(guard, or(alts...)), pos, nil)
	}
}

// frameCheckCallee: a callee that writes whole families cannot be shown to stay
// inside an explicit frame.
func (fv *FV) frameCheckCallee(st *State, keys map[string]bool, what string) {
	if len(keys) == 0 {
		return
	}
	for _, fr := range fv.activeFrames() {
		if fr.direct {
			continue
		}
		all := false
		for _, it := range fr.items {
			if it.all {
				all = true
			}
		}
		if all {
			continue
		}
		// covered if every key is listed with condition "true"
		covered := true
		for k := range keys {
			ok := false
			for _, it := range fr.items {
				if it.fam != nil && it.fam.Key == k && it.cond == "true" {
					ok = true
				}
			}
			if !ok {
				covered = false
			}
		}
		if covered {
			continue
		}
		pos := token.NoPos
		if fv.curInstr != nil {
			pos = fv.curInstr.Pos()
		}
		var miss []string
		for k := range keys {
			ok := false
			for _, it := range fr.items {
				if it.fam != nil && it.fam.Key == k && it.cond == "true" {
					ok = true
				}
			}
			if !ok {
				miss = append(miss, k)
			}
		}
		sort.Strings(miss)
		fv.obligeNoAssume(st, "frame", fmt.Sprintf("%s: %s may write %s", fr.what, what, strings.Join(miss, ",")), "false", pos, nil)
	}
}
