package main

import (
	"regexp"
	"encoding/json"
	"flag"
	"fmt"
	"os"
	"path/filepath"
	"runtime"
	"sort"
	"strconv"
	"strings"
	"time"
)

type LockFile struct {
	// obligations that were NOT discharged on the unchanged tree and are therefore
	// not claimed (each with the reason); everything else generated for a function
	// under contract must discharge.
	Undecided map[string]string `json:"undecided"`
	// number of obligations per function on the unchanged tree (vacuity guard)
	Counts map[string]int `json:"counts"`
	// functions under contract per property on the unchanged tree
	Functions map[string][]string `json:"functions"`
	// points (blocks, returns) that are unreachable under the contracts on the unchanged tree, by
	// function and block label (without the block number), with how many: any other unreachable point
	// means that the obligations behind it are proved vacuously and is reported as a violation
	Unreachable map[string]int `json:"unreachable"`
}

var blockNo = regexp.MustCompile(`#cover\{block [0-9]+ `)

// coverKey: the name of a cover obligation without the block number (stable under edits elsewhere in the function).
func coverKey(name string) string { return blockNo.ReplaceAllString(name, "#cover{block ") }

type KnownFinding struct {
	Property   string `json:"property"`
	Obligation string `json:"obligation"`
	What       string `json:"what"`
	Status     string `json:"status"` // open | fixed
	Commit     string `json:"commit,omitempty"`
	Witness    string `json:"witness,omitempty"`
}

type funcReport struct {
	Name        string   `json:"function"`
	Pos         string   `json:"pos"`
	Obligations int      `json:"obligations"`
	Discharged  int      `json:"discharged"`
	Trusted     string   `json:"trusted,omitempty"`
	Unsupported []string `json:"unsupported,omitempty"`
	Unmodelled  []string `json:"unmodelled,omitempty"`
}

func main() {
	if len(os.Args) < 2 {
		fmt.Fprintln(os.Stderr, "usage: gocv check|lock|dump ...")
		os.Exit(2)
	}
	cmd := os.Args[1]
	fs := flag.NewFlagSet(cmd, flag.ExitOnError)
	repo := fs.String("repo", "/repo", "repository to verify")
	verif := fs.String("verif", "/verif", "verif directory (lock, known findings, evidence)")
	prop := fs.String("prop", "", "property id")
	tier := fs.String("tier", "quick", "quick|thorough")
	only := fs.String("func", "", "only functions whose name contains this")
	dump := fs.String("dump", "", "write the SMT queries to this directory")
	noCache := fs.Bool("nocache", false, "do not use the solver result cache")
	evidenceOut := fs.String("evidence", "", "evidence file (default <verif>/evidence/<prop>.json)")
	showAll := fs.Bool("v", false, "print every obligation")
	fs.Parse(os.Args[2:])
	seed := 0
	if s := os.Getenv("VERIF_SEED"); s != "" {
		if n, err := strconv.Atoi(s); err == nil {
			seed = n
		}
	}
	if t := os.Getenv("VERIF_TIER"); t == "quick" || t == "thorough" {
		if !flagSet(fs, "tier") {
			*tier = t
		}
	}
	switch cmd {
	case "maploops":
		listMapLoops()
	case "check", "lock":
		partialRun = *only != ""
		os.Exit(runCheck(cmd == "lock", *repo, *verif, *prop, *tier, *only, *dump, !*noCache, seed, *evidenceOut, *showAll))
	default:
		fmt.Fprintln(os.Stderr, "unknown command", cmd)
		os.Exit(2)
	}
}

func flagSet(fs *flag.FlagSet, name string) bool {
	found := false
	fs.Visit(func(f *flag.Flag) {
		if f.Name == name {
			found = true
		}
	})
	return found
}

func hasProp(props []string, p string) bool {
	for _, x := range props {
		if x == p {
			return true
		}
	}
	return false
}

func readJSON(path string, v interface{}) error {
	b, err := os.ReadFile(path)
	if err != nil {
		return err
	}
	return json.Unmarshal(b, v)
}

func runCheck(lockMode bool, repo, verif, prop, tier, only, dump string, useCache bool, seed int, evidenceOut string, showAll bool) int {
	t0 := time.Now()
	eng, err := loadEngine(repo)
	if err != nil {
		fmt.Fprintln(os.Stderr, "load error:", err)
		// a tree that does not compile is not a verification result
		return 2
	}
	loadS := time.Since(t0).Seconds()
	if len(eng.contracts.Errors) > 0 {
		for _, e := range eng.contracts.Errors {
			fmt.Fprintln(os.Stderr, "contract error:", e)
		}
		return 2
	}
	var lock LockFile
	readJSON(filepath.Join(verif, "obligations.lock.json"), &lock)
	if lock.Undecided == nil {
		lock.Undecided = map[string]string{}
	}
	var known []KnownFinding
	readJSON(filepath.Join(verif, "known_findings.json"), &known)

	props := []string{prop}
	if prop == "" || prop == "all" {
		seen := map[string]bool{}
		for _, c := range eng.contracts.Funcs {
			for _, p := range c.Props {
				seen[p] = true
			}
			for _, cl := range append(append([]*Clause{}, c.Ensures...), c.Requires...) {
				for _, p := range cl.Props {
					seen[p] = true
				}
			}
		}
		for _, f := range eng.contracts.Frames {
			for _, p := range f.Props {
				seen[p] = true
			}
		}
		if len(eng.contracts.Commutes) > 0 {
			seen["C13"] = true
		}
		props = sortedKeys(seen)
	}

	// functions under contract
	var keys []string
	for k := range eng.contracts.Funcs {
		keys = append(keys, k)
	}
	sort.Strings(keys)
	var results []*fres
	var missing []string
	for _, k := range keys {
		c := eng.contracts.Funcs[k]
		sel := false
		for _, p := range props {
			if hasProp(c.Props, p) {
				sel = true
			}
			for _, cl := range append(append([]*Clause{}, c.Ensures...), c.Requires...) {
				if hasProp(cl.Props, p) {
					sel = true
				}
			}
		}
		if !sel || c.Extern {
			continue
		}
		if only != "" && !strings.Contains(c.FuncName, only) {
			continue
		}
		fn := eng.findFunc(c.Pkg, c.FuncName)
		if fn == nil && c.Trusted != "" && !strings.Contains(c.FuncName, ".") {
			continue // contract on a named function type (callback): assumed
		}
		if fn == nil {
			if strings.Contains(c.FuncName, ".") && !strings.HasPrefix(c.FuncName, "(") && isInterfaceContract(eng, c) {
				// contract on an interface method: every implementation in the repo must refine it
				for _, rr := range eng.refinements(c) {
					results = append(results, rr)
				}
				continue
			}
			missing = append(missing, shortPkg(c.Pkg)+"."+c.FuncName)
			continue
		}
		if c.Trusted != "" {
			results = append(results, &fres{c: c, fn: fn})
			continue
		}
		fv := eng.verifyFunction(fn, c)
		results = append(results, &fres{c: c, fn: fn, fv: fv})
	}
	genS := time.Since(t0).Seconds() - loadS

	// collect spec errors
	var specErrs []string
	for _, r := range results {
		if r.fv != nil {
			specErrs = append(specErrs, r.fv.specErrs...)
		}
	}

	prelude := eng.prelude()
	cacheDir := ""
	if useCache {
		cacheDir = filepath.Join(verif, ".cache")
	}
	pf := newPortfolio(tier, seed, cacheDir)
	var jobs []*job
	for _, r := range results {
		if r.fv == nil {
			continue
		}
		for _, o := range r.fv.obls {
			if o.Result != nil && o.Result.Solver == "static-dataflow" {
				continue
			}
			qs := buildQueries(prelude, r.fv, o, []int{1, 2, 3})
			q := qs[len(qs)-1]
			jobs = append(jobs, &job{o: o, query: q, pruned: qs[:len(qs)-1]})
			if dump != "" {
				os.MkdirAll(dump, 0o755)
				os.WriteFile(filepath.Join(dump, safeFile(o.Name)+".smt2"), []byte(q+"(check-sat)\n"), 0o644)
				for pi, pq := range qs[:len(qs)-1] {
					os.WriteFile(filepath.Join(dump, safeFile(o.Name)+fmt.Sprintf(".p%d.smt2", pi)), []byte(pq+"(check-sat)\n"), 0o644)
				}
			}
		}
	}
	workers := runtime.NumCPU() / 2
	if w, err := strconv.Atoi(os.Getenv("GOCV_WORKERS")); err == nil && w > 0 {
		workers = w // selftest runs several checks side by side
	}
	if workers < 2 {
		workers = 2
	}
	solveAll(pf, jobs, workers)
	solveS := time.Since(t0).Seconds() - loadS - genS

	exit := 0
	for _, p := range props {
		if p == "C13" {
			co, verdicts := eng.commuteObligations(p)
			eng.commuteVerdicts = verdicts
			results = append(results, &fres{c: &Contract{FuncName: "map-range loops", Pkg: repoModule, Props: []string{p}}, fn: nil, fv: &FV{eng: eng, obls: co, unmodelled: map[string]bool{}, assumptionsUsed: map[string]bool{
				"order independence is decided per loop by an iteration contract checked syntactically on go/ssa (footprints, commutative accumulators); distinct map entries are assumed not to share the objects reached through their values": true,
				"bag accumulators (append) are order-independent only as multisets: that their consumers do not depend on the order is not proved":                                                                                               true,
				"goroutine interleavings are not decided": true}}})
		}
		if fo := eng.frameObligations(p); len(fo) > 0 {
			results = append(results, &fres{c: &Contract{FuncName: "frames(" + p + ")", Pkg: repoModule + "/planner", Props: []string{p}}, fn: nil, fv: &FV{eng: eng, obls: fo, unmodelled: map[string]bool{}, assumptionsUsed: map[string]bool{"frame obligations are decided by a conservative syntactic dataflow over go/ssa (loads/stores through FieldAddr, followed through repo callees and closures); hash functions (SHA-1) and the selection-set formatter are assumed injective": true}}})
		}
		if lockMode {
			continue
		}
		if rc := report(eng, p, tier, seed, verif, results, missing, specErrs, lock, known, pf, time.Since(t0).Seconds(), loadS, genS, solveS, evidenceOut, showAll, prelude); rc != 0 {
			exit = rc
		}
	}
	if lockMode {
		var all []*Obligation
		for _, r := range results {
			if r.fv != nil {
				all = append(all, r.fv.obls...)
			}
		}
		return writeLock(verif, all, lock, known)
	}
	return exit
}

func isInterfaceContract(eng *Engine, c *Contract) bool {
	p := eng.pkgByPath[c.Pkg]
	if p == nil {
		return false
	}
	i := strings.Index(c.FuncName, ".")
	o := p.Types.Scope().Lookup(c.FuncName[:i])
	if o == nil {
		return false
	}
	_, ok := o.Type().Underlying().(interface{ NumEmbeddeds() int })
	return ok
}

func safeFile(s string) string {
	var b strings.Builder
	for _, r := range s {
		if r >= 'a' && r <= 'z' || r >= 'A' && r <= 'Z' || r >= '0' && r <= '9' || r == '.' || r == '_' || r == '-' {
			b.WriteRune(r)
		} else {
			b.WriteRune('_')
		}
	}
	s = b.String()
	if len(s) > 150 {
		s = s[:150]
	}
	return s
}

func results2obls(jobs []*job) []*Obligation {
	var os_ []*Obligation
	for _, j := range jobs {
		os_ = append(os_, j.o)
	}
	return os_
}

func writeLock(verif string, obls []*Obligation, old LockFile, known []KnownFinding) int {
	lock := LockFile{Undecided: map[string]string{}, Counts: map[string]int{}, Functions: map[string][]string{}, Unreachable: map[string]int{}}
	knownSet := map[string]bool{}
	for _, k := range known {
		if k.Status != "fixed" {
			knownSet[k.Obligation] = true
		}
	}
	nu := 0
	for _, o := range obls {
		lock.Counts[o.Func]++
		if o.Kind == "cover" {
			if o.Result != nil && o.Result.Status == "unsat" {
				lock.Unreachable[coverKey(o.Name)]++
			}
			continue
		}
		if o.Result == nil || o.Result.Status != "unsat" {
			if knownSet[o.Name] {
				continue
			}
			st := "none"
			if o.Result != nil {
				st = o.Result.Status
			}
			lock.Undecided[o.Name] = st
			nu++
		}
	}
	// a relock must never hide a regression: say which undecided obligations are new
	if ob, err := os.ReadFile(filepath.Join(verif, "obligations.lock.json")); err == nil {
		var old LockFile
		if json.Unmarshal(ob, &old) == nil {
			for _, k := range sortedKeys2(lock.Undecided) {
				if _, had := old.Undecided[k]; !had {
					fmt.Printf("NEW undecided (not claimed): %s [%s] - check that this is not a regression\n", k, lock.Undecided[k])
				}
			}
			for k, n := range lock.Unreachable {
				if n > old.Unreachable[k] {
					fmt.Printf("NEW unreachable point: %s (%d) - everything behind it is proved vacuously: find out why before accepting\n", k, n)
				}
			}
		}
	}
	b, _ := json.MarshalIndent(lock, "", " ")
	if err := os.WriteFile(filepath.Join(verif, "obligations.lock.json"), append(b, '\n'), 0o644); err != nil {
		fmt.Fprintln(os.Stderr, err)
		return 2
	}
	fmt.Printf("lock written: %d obligations, %d undecided (not claimed)\n", len(obls), nu)
	return 0
}

func sortedKeys2(m map[string]string) []string {
	ks := make([]string, 0, len(m))
	for k := range m {
		ks = append(ks, k)
	}
	sort.Strings(ks)
	return ks
}
