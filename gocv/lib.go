package main

// Assumed contracts (models) of library functions and the fold rule for the
// fan-out helper. Every model used in a run is listed in the evidence.

import (
	"fmt"
	"go/ast"
	"go/constant"
	"go/token"
	"go/types"
	"strings"

	"golang.org/x/tools/go/ssa"
)

type libModel func(fv *FV, st *State, ins ssa.CallInstruction, v ssa.Value, callee *ssa.Function, args []string) bool

var libModels map[string]libModel

func init() {
	libModels = map[string]libModel{
		"strconv.Itoa": func(fv *FV, st *State, ins ssa.CallInstruction, v ssa.Value, callee *ssa.Function, args []string) bool {
			c := fv.bind(st, v, sx("str-itoa", args[0]))
			fv.assume(st, and(eq(sx("itoa-inv", c), args[0]), not(sx("str.prefixof", `"!"`, c)), sx(">=", sx("str.len", c), "1")))
			fv.used("strconv.Itoa: injective, non-empty, never starts with '!'")
			return true
		},
		"strings.Contains": func(fv *FV, st *State, ins ssa.CallInstruction, v ssa.Value, callee *ssa.Function, args []string) bool {
			fv.bind(st, v, sx("str.contains", args[0], args[1]))
			fv.used("strings.Contains = str.contains")
			return true
		},
		"strings.HasPrefix": func(fv *FV, st *State, ins ssa.CallInstruction, v ssa.Value, callee *ssa.Function, args []string) bool {
			fv.bind(st, v, sx("str.prefixof", args[1], args[0]))
			fv.used("strings.HasPrefix = str.prefixof")
			return true
		},
		"strings.HasSuffix": func(fv *FV, st *State, ins ssa.CallInstruction, v ssa.Value, callee *ssa.Function, args []string) bool {
			fv.bind(st, v, sx("str.suffixof", args[1], args[0]))
			fv.used("strings.HasSuffix = str.suffixof")
			return true
		},
		"strings.Index": func(fv *FV, st *State, ins ssa.CallInstruction, v ssa.Value, callee *ssa.Function, args []string) bool {
			fv.bind(st, v, sx("str.indexof", args[0], args[1], "0"))
			fv.used("strings.Index = str.indexof")
			return true
		},
		"strings.Split":  modelSplit,
		"strings.SplitN": modelSplit,
		"github.com/samber/lo.Range": func(fv *FV, st *State, ins ssa.CallInstruction, v ssa.Value, callee *ssa.Function, args []string) bool {
			// lo.Range(n) = [0, 1, ..., n-1] for n >= 0 ([0,-1,...] for n < 0), fresh backing array
			n := args[0]
			r := fv.alloc(st)
			ln := ite(sx(">=", n, "0"), n, sx("-", n))
			f := fv.elemFam(types.Typ[types.Int])
			_, names := famParams(f)
			fv.writeWhere(st, f, and(eq(names[0], r), sx("<=", "0", names[1]), sx("<", names[1], ln)), ite(sx(">=", n, "0"), names[1], sx("-", names[1])))
			fv.bind(st, v, sx("mk-slice", r, "0", ln, ln))
			fv.used("lo.Range(n) = [0..n) in a fresh slice")
			return true
		},
		"github.com/samber/lo.Contains": func(fv *FV, st *State, ins ssa.CallInstruction, v ssa.Value, callee *ssa.Function, args []string) bool {
			cc := ins.Common()
			sl, ok := cc.Args[0].Type().Underlying().(*types.Slice)
			if !ok {
				return false
			}
			if _, isSt := sl.Elem().Underlying().(*types.Struct); isSt {
				return false
			}
			f := fv.elemFam(sl.Elem())
			q := fv.fresh("q!i")
			c := fv.freshConst("contains", "Bool")
			body := and(sx("<=", "0", q), sx("<", q, sx("s-len", args[0])), eq(fv.read(st, f, sx("s-base", args[0]), sx("+", sx("s-off", args[0]), q)), args[1]))
			fv.assume(st, eq(c, fmt.Sprintf("(exists ((%s Int)) %s)", q, body)))
			fv.setVal(v, c)
			fv.used("lo.Contains(s, x) = exists i. s[i] == x")
			return true
		},
		"github.com/samber/lo.Uniq": func(fv *FV, st *State, ins ssa.CallInstruction, v ssa.Value, callee *ssa.Function, args []string) bool {
			cc := ins.Common()
			sl, ok := cc.Args[0].Type().Underlying().(*types.Slice)
			if !ok {
				return false
			}
			if _, isSt := sl.Elem().Underlying().(*types.Struct); isSt {
				return false
			}
			f := fv.elemFam(sl.Elem())
			in := args[0]
			nb := fv.alloc(st)
			n := fv.freshConst("uniqlen", "Int")
			fv.assume(st, and(sx("<=", "0", n), sx("<=", n, sx("s-len", in))))
			out := sx("mk-slice", nb, "0", n, n)
			// the result array is new: its cells get arbitrary values constrained below
			_, names := famParams(f)
			fv.havocFamily(st, f, eq(names[0], nb))
			elemIn := func(i string) string { return fv.read(st, f, sx("s-base", in), sx("+", sx("s-off", in), i)) }
			elemOut := func(j string) string { return fv.read(st, f, nb, j) }
			qi, qj := fv.fresh("q!i"), fv.fresh("q!m")
			inR := func(i, hi string) string { return and(sx("<=", "0", i), sx("<", i, hi)) }
			// every input element occurs in the result
			fv.assume(st, fmt.Sprintf("(forall ((%s Int)) (! %s :pattern ((no-trigger %s))))", qi, implies(inR(qi, sx("s-len", in)), fmt.Sprintf("(exists ((%s Int)) %s)", qj, and(inR(qj, n), eq(elemOut(qj), elemIn(qi))))), qi))
			// every result element is an input element
			qj2, qi2 := fv.fresh("q!m"), fv.fresh("q!i")
			fv.assume(st, fmt.Sprintf("(forall ((%s Int)) (! %s :pattern ((no-trigger %s))))", qj2, implies(inR(qj2, n), fmt.Sprintf("(exists ((%s Int)) %s)", qi2, and(inR(qi2, sx("s-len", in)), eq(elemOut(qj2), elemIn(qi2))))), qj2))
			// no repetition
			qa, qb := fv.fresh("q!u"), fv.fresh("q!v")
			fv.assume(st, fmt.Sprintf("(forall ((%s Int) (%s Int)) (! %s :pattern ((no-trigger %s) (no-trigger %s))))", qa, qb, implies(and(inR(qa, n), inR(qb, qa)), not(eq(elemOut(qa), elemOut(qb)))), qa, qb))
			fv.bind(st, v, out)
			fv.used("lo.Uniq(s): a new slice holding exactly the distinct elements of s")
			return true
		},
		"github.com/samber/lo.UniqBy": func(fv *FV, st *State, ins ssa.CallInstruction, v ssa.Value, callee *ssa.Function, args []string) bool {
			cc := ins.Common()
			sl, ok := cc.Args[0].Type().Underlying().(*types.Slice)
			if !ok {
				return false
			}
			if _, isSt := sl.Elem().Underlying().(*types.Struct); isSt {
				return false
			}
			// the key function must be a function literal whose contract has an `ensures result == <expr>`
			// clause: <expr> (over its parameter) is the key term used below
			kfn, _, ok := closureOf(cc.Args[1])
			if !ok || len(kfn.Params) != 1 {
				return false
			}
			kc := fv.eng.contractFor(kfn)
			if kc == nil {
				return false
			}
			var keyExpr ast.Expr
			for _, e := range kc.Ensures {
				if be, ok := e.Expr.(*ast.BinaryExpr); ok && be.Op == token.EQL {
					if id, ok := be.X.(*ast.Ident); ok && id.Name == "result" {
						keyExpr = be.Y
					}
				}
			}
			if keyExpr == nil {
				return false
			}
			pname := kfn.Params[0].Name()
			ptype := kfn.Params[0].Type()
			kpkg := kfn.Pkg
			if kpkg == nil && kfn.Parent() != nil {
				kpkg = kfn.Parent().Pkg
			}
			keyOf := func(elem string) (string, bool) {
				ctx := fv.newSpecCtx(kpkg.Pkg, st, st)
				ctx.vars[pname] = SVal{elem, ptype}
				var out string
				okk := true
				func() {
					defer func() {
						if r := recover(); r != nil {
							okk = false
						}
					}()
					out = ctx.tr(keyExpr).t
				}()
				return out, okk
			}
			f := fv.elemFam(sl.Elem())
			in := args[0]
			if _, ok := keyOf("0"); !ok {
				return false
			}
			nb := fv.alloc(st)
			n := fv.freshConst("uniqlen", "Int")
			fv.assume(st, and(sx("<=", "0", n), sx("<=", n, sx("s-len", in))))
			out := sx("mk-slice", nb, "0", n, n)
			_, names := famParams(f)
			fv.havocFamily(st, f, eq(names[0], nb))
			elemIn := func(i string) string { return fv.read(st, f, sx("s-base", in), sx("+", sx("s-off", in), i)) }
			elemOut := func(j string) string { return fv.read(st, f, nb, j) }
			inR := func(i, hi string) string { return and(sx("<=", "0", i), sx("<", i, hi)) }
			qi, qj := fv.fresh("q!i"), fv.fresh("q!m")
			kIn, _ := keyOf(elemIn(qi))
			kOut, _ := keyOf(elemOut(qj))
			// every input element has an element with the same key in the result
			fv.assume(st, fmt.Sprintf("(forall ((%s Int)) (! %s :pattern ((no-trigger %s))))", qi, implies(inR(qi, sx("s-len", in)), fmt.Sprintf("(exists ((%s Int)) %s)", qj, and(inR(qj, n), eq(kOut, kIn)))), qi))
			// every result element is an input element
			qj2, qi2 := fv.fresh("q!m"), fv.fresh("q!i")
			fv.assume(st, fmt.Sprintf("(forall ((%s Int)) (! %s :pattern ((no-trigger %s))))", qj2, implies(inR(qj2, n), fmt.Sprintf("(exists ((%s Int)) %s)", qi2, and(inR(qi2, sx("s-len", in)), eq(elemOut(qj2), elemIn(qi2))))), qj2))
			fv.bind(st, v, out)
			fv.used("lo.UniqBy(s, key): a new slice of elements of s in which every key of s occurs (key = the contract of the key function)")
			return true
		},
		"github.com/samber/lo.Difference": func(fv *FV, st *State, ins ssa.CallInstruction, v ssa.Value, callee *ssa.Function, args []string) bool {
			cc := ins.Common()
			sl, ok := cc.Args[0].Type().Underlying().(*types.Slice)
			if !ok {
				return false
			}
			if _, isSt := sl.Elem().Underlying().(*types.Struct); isSt {
				return false
			}
			f := fv.elemFam(sl.Elem())
			a, b := args[0], args[1]
			at := func(s, i string) string { return fv.read(st, f, sx("s-base", s), sx("+", sx("s-off", s), i)) }
			inR := func(s, i string) string { return and(sx("<=", "0", i), sx("<", i, sx("s-len", s))) }
			// two new slices; only their emptiness is characterised: left is empty iff every element of a occurs in b, and symmetrically
			mk := func(name string) string {
				nb := fv.alloc(st)
				n := fv.freshConst(name, "Int")
				fv.assume(st, sx("<=", "0", n))
				return sx("mk-slice", nb, "0", n, n)
			}
			left, right := mk("diffl"), mk("diffr")
			sub := func(x, y string) string {
				qi, qj := fv.fresh("q!i"), fv.fresh("q!m")
				return fmt.Sprintf("(forall ((%s Int)) (! %s :pattern ((no-trigger %s))))", qi, implies(inR(x, qi), fmt.Sprintf("(exists ((%s Int)) %s)", qj, and(inR(y, qj), eq(at(y, qj), at(x, qi))))), qi)
			}
			// (two implications each, so that the universal one is in positive position for the instance generator)
			fv.assume(st, implies(eq(sx("s-len", left), "0"), sub(a, b)))
			fv.assume(st, implies(not(eq(sx("s-len", left), "0")), not(sub(a, b))))
			fv.assume(st, implies(eq(sx("s-len", right), "0"), sub(b, a)))
			fv.assume(st, implies(not(eq(sx("s-len", right), "0")), not(sub(b, a))))
			fv.setResults(st, v, []string{left, right})
			fv.used("lo.Difference(a, b): the first result is empty iff every element of a occurs in b, the second iff every element of b occurs in a")
			return true
		},
		"sort.Strings": func(fv *FV, st *State, ins ssa.CallInstruction, v ssa.Value, callee *ssa.Function, args []string) bool {
			cc := ins.Common()
			sl, ok := cc.Args[0].Type().Underlying().(*types.Slice)
			if !ok {
				return false
			}
			f := fv.elemFam(sl.Elem())
			in := args[0]
			old := fv.famSym(st, f)
			_, names := famParams(f)
			// the cells of the slice are rewritten; every new element is one of the old ones
			fv.frameCheck(st, f, []string{sx("s-base", in), "0"}, "sort.Strings")
			fv.havocFamily(st, f, and(eq(names[0], sx("s-base", in)), sx("<=", sx("s-off", in), names[1]), sx("<", names[1], sx("+", sx("s-off", in), sx("s-len", in)))))
			qi, qj := fv.fresh("q!i"), fv.fresh("q!m")
			inR := func(i string) string { return and(sx("<=", "0", i), sx("<", i, sx("s-len", in))) }
			newAt := func(i string) string { return fv.read(st, f, sx("s-base", in), sx("+", sx("s-off", in), i)) }
			oldAt := func(i string) string { return sx(old, sx("s-base", in), sx("+", sx("s-off", in), i)) }
			fv.assume(st, fmt.Sprintf("(forall ((%s Int)) (! %s :pattern ((no-trigger %s))))", qi, implies(inR(qi), fmt.Sprintf("(exists ((%s Int)) %s)", qj, and(inR(qj), eq(newAt(qi), oldAt(qj))))), qi))
			fv.used("sort.Strings(s): the elements of s are rearranged in place (every new element is an old one)")
			return true
		},
		"errors.New":              modelNewError,
		"fmt.Errorf":              modelNewError,
		"fmt.Sprintf":             modelSprintf,
		"fmt.Sprint":              modelFreshString,
		"strings.Join":            modelFreshString,
		"sync.(*RWMutex).RLock":   modelLock(0, 1, "RLock"),
		"sync.(*RWMutex).RUnlock": modelLock(1, 0, "RUnlock"),
		"sync.(*RWMutex).Lock":    modelLock(0, 2, "Lock"),
		"sync.(*RWMutex).Unlock":  modelLock(2, 0, "Unlock"),
		"sync.(*Mutex).Lock":      modelLock(0, 2, "Lock"),
		"sync.(*Mutex).Unlock":    modelLock(2, 0, "Unlock"),
		"encoding/json.Unmarshal": func(fv *FV, st *State, ins ssa.CallInstruction, v ssa.Value, callee *ssa.Function, args []string) bool {
			cc := ins.Common()
			fv.havocPointee(st, cc.Args[1], args[1])
			fv.bumpWM(st)
			c := fv.freshConst("jerr", "Any")
			fv.assume(st, fv.valid(c, callee.Signature.Results().At(0).Type(), st.wm))
			fv.assumeForeignErrs(st, callee.Signature, []string{c})
			if nv := fv.nonVacuousErr(c); nv != "" {
				fv.assume(st, nv) // encoding/json returns its own error types
			}
			fv.setResults(st, v, []string{c})
			fv.used("encoding/json.Unmarshal: arbitrary (type-valid) value stored through the pointer, arbitrary error")
			return true
		},
	}
}

func (fv *FV) used(s string) { fv.assumptionsUsed["model: "+s] = true }

func modelNewError(fv *FV, st *State, ins ssa.CallInstruction, v ssa.Value, callee *ssa.Function, args []string) bool {
	r := fv.alloc(st)
	tag := fv.u.tag(types.NewPointer(types.NewNamed(types.NewTypeName(0, nil, "errors.errorString", nil), types.NewStruct(nil, nil), nil)))
	fv.bind(st, v, sx("any-ref", r, intLit(int64(tag))))
	fv.used("errors.New / fmt.Errorf return a fresh non-nil error of a private pointer type")
	return true
}

// fmt.Sprintf(format, a...) is a deterministic function of its arguments: modelled as an
// uninterpreted function per arity (arguments boxed), with the literal prefix of a constant
// format string known.
func modelSprintf(fv *FV, st *State, ins ssa.CallInstruction, v ssa.Value, callee *ssa.Function, args []string) bool {
	cc := ins.Common()
	n := -1
	var base string
	if sl, ok := cc.Args[1].(*ssa.Slice); ok {
		if al, ok := sl.X.(*ssa.Alloc); ok {
			if arr, ok := al.Type().Underlying().(*types.Pointer).Elem().Underlying().(*types.Array); ok {
				n = int(arr.Len())
				base = fv.val(st, al)
			}
		}
	} else if c, ok := cc.Args[1].(*ssa.Const); ok && c.Value == nil {
		n = 0
	}
	if n < 0 || n > 4 {
		return modelFreshString(fv, st, ins, v, callee, args)
	}
	name := fmt.Sprintf("fmt-sprintf!%d", n)
	sorts := []string{"String"}
	terms := []string{args[0]}
	f := fv.elemFam(types.NewInterfaceType(nil, nil))
	for i := 0; i < n; i++ {
		sorts = append(sorts, "Any")
		terms = append(terms, fv.read(st, f, base, intLit(int64(i))))
	}
	fv.eng.declareGhost(name, sorts, "String")
	c := fv.bind(st, v, sx(name, terms...))
	if fc, ok := cc.Args[0].(*ssa.Const); ok && fc.Value != nil {
		fs := constant.StringVal(fc.Value)
		if i := strings.Index(fs, "%"); i > 0 {
			fv.assume(st, sx("str.prefixof", strLit(fs[:i]), c))
		} else if i < 0 {
			fv.assume(st, eq(c, strLit(fs)))
		}
	}
	fv.used("fmt.Sprintf: deterministic uninterpreted function of (format, args); literal prefix of a constant format is known")
	return true
}

func modelFreshString(fv *FV, st *State, ins ssa.CallInstruction, v ssa.Value, callee *ssa.Function, args []string) bool {
	fv.bindFresh(st, v)
	fv.used(originName(callee) + ": arbitrary string")
	return true
}

func modelSplit(fv *FV, st *State, ins ssa.CallInstruction, v ssa.Value, callee *ssa.Function, args []string) bool {
	// result: fresh []string; for a non-empty separator len >= 1; if the separator does not
	// occur the result is [s]; SplitN(.., n) with n > 0 has len <= n
	s, sep := args[0], args[1]
	r := fv.alloc(st)
	n := fv.freshConst("splitn", "Int")
	fv.assume(st, sx(">=", n, "0"))
	fv.assume(st, implies(sx("distinct", sep, `""`), sx(">=", n, "1")))
	f := fv.elemFam(types.Typ[types.String])
	_, names := famParams(f)
	fv.havocFamily(st, f, eq(names[0], r))
	res := sx("mk-slice", r, "0", n, n)
	fv.assume(st, implies(and(sx("distinct", sep, `""`), not(sx("str.contains", s, sep))), and(eq(n, "1"), eq(fv.read(st, f, r, "0"), s))))
	// no piece contains the separator (Split only)
	if originName(callee) == "strings.Split" {
		k := fv.fresh("q!k")
		fv.assume(st, implies(sx("distinct", sep, `""`), fmt.Sprintf("(forall ((%s Int)) %s)", k, implies(and(sx("<=", "0", k), sx("<", k, n)), not(sx("str.contains", fv.read(st, f, r, k), sep))))))
		// first piece is the prefix before the first separator
		fv.assume(st, implies(and(sx("distinct", sep, `""`), sx("str.contains", s, sep)), and(sx(">=", n, "2"), eq(fv.read(st, f, r, "0"), sx("str.substr", s, "0", sx("str.indexof", s, sep, "0"))))))
	}
	// the part after the first separator
	idx := sx("str.indexof", s, sep, "0")
	rest := sx("str.substr", s, sx("+", idx, sx("str.len", sep)), sx("str.len", s))
	has := and(sx("distinct", sep, `""`), sx("str.contains", s, sep))
	if len(args) == 3 {
		fv.assume(st, implies(sx(">", args[2], "0"), sx("<=", n, args[2])))
		fv.assume(st, implies(eq(args[2], "0"), eq(n, "0")))
		// SplitN(s, sep, 2): exactly [before, everything after the first separator]
		fv.assume(st, implies(and(has, eq(args[2], "2")), and(eq(n, "2"), eq(fv.read(st, f, r, "0"), sx("str.substr", s, "0", idx)), eq(fv.read(st, f, r, "1"), rest))))
	} else {
		// Split: one separator -> two pieces, more separators -> at least three pieces
		fv.assume(st, implies(and(has, not(sx("str.contains", rest, sep))), and(eq(n, "2"), eq(fv.read(st, f, r, "1"), rest))))
		fv.assume(st, implies(and(has, sx("str.contains", rest, sep)), sx(">=", n, "3")))
	}
	fv.bind(st, v, res)
	fv.used(originName(callee) + ": fresh slice; len>=1 for non-empty sep; [s] when sep absent; pieces free of sep; first piece = prefix before first sep")
	return true
}

// ghost lock state: 0 none, 1 read-held, 2 write-held
func modelLock(from, to int, name string) libModel {
	return func(fv *FV, st *State, ins ssa.CallInstruction, v ssa.Value, callee *ssa.Function, args []string) bool {
		f := fv.lockFam()
		cur := fv.read(st, f, args[0])
		fv.oblige(st, "lock", fv.srcLabel(ins.Pos(), name), eq(cur, intLit(int64(from))), ins.Pos(), nil)
		fv.write(st, f, []string{args[0]}, intLit(int64(to)))
		fv.lockKeys = append(fv.lockKeys, args[0])
		fv.used("sync mutex modelled as ghost state machine (none/R/W) of one sequential thread; all mutexes free at function entry")
		return true
	}
}

func (fv *FV) lockFam() *Family {
	if f, ok := fv.fams["GL|lock"]; ok {
		return f
	}
	f := fv.family("GL|lock", []string{"Int"}, "Int")
	return f
}

// ---------------------------------------------------------------------------
// fold rule for common.AsyncMapReduce(payload, acc0, mapF, redF)
//
// Assumed contract of the helper (property C20 is not decided by this technique):
// mapF is applied exactly once to every item; redF is applied exactly once, and
// never concurrently with itself, to the result of every successful mapF; the
// returned accumulator is the fold of redF over the successful results in SOME
// order; errs is nil iff every mapF succeeded.

func (fv *FV) callFold(st *State, ins ssa.CallInstruction, v ssa.Value, callee *ssa.Function, args []string) {
	cc := ins.Common()
	sig := callee.Signature
	ord := fv.foldCount
	fv.foldCount++
	mapFn, mapBindV, ok1 := closureOf(cc.Args[2])
	redFn, redBindV, ok2 := closureOf(cc.Args[3])
	var spec *FoldSpec
	if fv.contract != nil {
		spec = fv.contract.Folds[ord]
	}
	fv.used("common.AsyncMapReduce: assumed fold contract (each item mapped once, reducer serial, all errors returned, any completion order)")
	generic := func(why string) {
		keys := map[string]bool{}
		for _, a := range []ssa.Value{cc.Args[2], cc.Args[3]} {
			if fn, _, ok := closureOf(a); ok {
				for k := range fv.eng.modFamilies(fn) {
					keys[k] = true
				}
			} else {
				keys["*"] = true
			}
		}
		fv.bumpWM(st)
		fv.havocKeys(st, keys, "fan-out "+why)
		fv.frameCheckCallee(st, keys, "fan-out")
		rs := fv.freshResults(st, sig, "fold")
		fv.assumeValidResults(st, sig, rs)
		fv.setResults(st, v, rs)
	}
	if !ok1 || !ok2 {
		generic("with non-literal closures")
		return
	}
	mapC, redC := fv.eng.contractFor(mapFn), fv.eng.contractFor(redFn)
	if spec == nil || mapC == nil || redC == nil {
		generic("without fold invariant")
		return
	}
	pos := ins.Pos()
	payload := args[0]
	n := sx("s-len", payload)
	pt := cc.Args[0].Type().Underlying().(*types.Slice)
	itemFam := fv.elemFam(pt.Elem())
	accT := cc.Args[1].Type()
	bind := func(fn *ssa.Function, bs []ssa.Value) map[string]SVal {
		m := map[string]SVal{}
		for i, f := range fn.FreeVars {
			if i < len(bs) {
				m[f.Name()] = SVal{fv.val(st, bs[i]), f.Type()}
			}
		}
		return m
	}
	mapBind, redBind := bind(mapFn, mapBindV), bind(redFn, redBindV)

	mkCtx := func(s *State, acc string, done func(string) string) *SpecCtx {
		ctx := fv.newSpecCtx(fv.pkgTypes(), s, fv.entry)
		for k, vv := range fv.params {
			ctx.vars[k+"0"] = vv
		}
		ctx.cellVars = fv.cellVarsOf()
		blk := fv.curBlock
		ctx.lookup = func(name string, ss *State) (SVal, bool) {
			a := fv.localByName(name, blk)
			if a == nil {
				if vv, ok := fv.params[name]; ok {
					return vv, true
				}
				return SVal{}, false
			}
			elem := a.Type().Underlying().(*types.Pointer).Elem()
			return SVal{fv.loadLoc(ss, fv.locOf(ss, a)), elem}, true
		}
		ctx.vars["acc"] = SVal{acc, accT}
		ctx.vars["n"] = SVal{n, tInt}
		ctx.done = done
		ctx.item = func(c *SpecCtx, k string) SVal {
			return SVal{fv.read(c.st, itemFam, sx("s-base", payload), sx("+", sx("s-off", payload), k)), pt.Elem()}
		}
		return ctx
	}

	// 1. Inv(acc0, {})
	ctx0 := mkCtx(st, args[1], func(k string) string { return "false" })
	for i, inv := range spec.Invariants {
		fv.obligeSpec(st, "fold-init", fmt.Sprintf("fold%d:%s", ord, clauseLabel(inv, i)), ctx0, inv, pos, inv.Props, fmt.Sprintf("fold %d invariant", ord))
	}

	// the two closures' footprints, evaluated at the call site
	havocBoth := func(s *State) {
		keys := map[string]bool{}
		for _, fn := range []*ssa.Function{mapFn, redFn} {
			for k := range fv.eng.modFamilies(fn) {
				keys[k] = true
			}
		}
		fv.bumpWM(s)
		fv.havocKeys(s, keys, fmt.Sprintf("fold %d closures", ord))
		fv.frameCheckCallee(s, keys, "fan-out")
	}

	// 2. inductive step, explored on a side state
	fv.regionCount++
	fv.region = fv.regionCount
	side := fv.freshConst("foldstep", "Bool")
	s1 := st.clone()
	s1.reach = and(st.reach, side)
	havocBoth(s1)
	acc1 := fv.freshConst("acc", fv.u.sortOf(accT))
	fv.assume(s1, fv.valid(acc1, accT, s1.wm))
	D := fv.fresh("done")
	fv.emit(fmt.Sprintf("(declare-fun %s (Int) Bool)", D))
	x := fv.freshConst("item", "Int")
	fv.assume(s1, and(sx("<=", "0", x), sx("<", x, n), not(sx(D, x))))
	ctx1 := mkCtx(s1, acc1, func(k string) string { return sx(D, k) })
	for _, inv := range spec.Invariants {
		if t, err := fv.trySpec(ctx1, inv); err == nil {
			fv.assume(s1, t)
		}
	}
	// mapF(item x)
	itemTerm := fv.read(s1, itemFam, sx("s-base", payload), sx("+", sx("s-off", payload), x))
	mvars := map[string]SVal{}
	if len(mapFn.Params) == 1 {
		mvars[mapFn.Params[0].Name()] = SVal{itemTerm, mapFn.Params[0].Type()}
	}
	mres := fv.applyContractRet(s1, mapC, mapFn.Pkg.Pkg, mapFn.Signature, fmt.Sprintf("fold%d.map", ord), mvars, mapBind, pos)
	// the helper drops an error that formats to nothing (an empty error list): the fold
	// contract "errs == nil iff every mapF succeeded" needs mapF errors to be non-vacuous
	if len(mres) == 2 {
		if nv := fv.nonVacuousErr(mres[1]); nv != "" {
			fv.oblige(s1, "fold-errors", fmt.Sprintf("fold%d: an error returned by the map closure is not an empty error list", ord), nv, pos, nil)
		}
	}
	// only successful results reach the reducer
	if len(mres) == 2 {
		fv.assume(s1, eq(mres[1], "any-nil"))
	}
	// the invariant must survive a (concurrent) mapF
	for i, inv := range spec.Invariants {
		ctx := mkCtx(s1, acc1, func(k string) string { return sx(D, k) })
		fv.obligeSpec(s1, "fold-stable", fmt.Sprintf("fold%d:%s", ord, clauseLabel(inv, i)), ctx, inv, pos, inv.Props, "fold invariant")
	}
	// redF(acc, value)
	rvars := map[string]SVal{}
	if len(redFn.Params) == 2 {
		rvars[redFn.Params[0].Name()] = SVal{acc1, redFn.Params[0].Type()}
		rvars[redFn.Params[1].Name()] = SVal{mres[0], redFn.Params[1].Type()}
	}
	rres := fv.applyContractRet(s1, redC, redFn.Pkg.Pkg, redFn.Signature, fmt.Sprintf("fold%d.reduce", ord), rvars, redBind, pos)
	D2 := fv.fresh("done")
	fv.emit(fmt.Sprintf("(define-fun %s ((k Int)) Bool (or (= k %s) (%s k)))", D2, x, D))
	ctx2 := mkCtx(s1, rres[0], func(k string) string { return sx(D2, k) })
	for i, inv := range spec.Invariants {
		fv.obligeSpec(s1, "fold-step", fmt.Sprintf("fold%d:%s", ord, clauseLabel(inv, i)), ctx2, inv, pos, inv.Props, "fold invariant")
	}
	// vacuity guard for the side exploration, then switch it off for the rest of the function
	fv.obls = append(fv.obls, &Obligation{
		Name: fmt.Sprintf("%s.%s#cover{fold%d step}", shortPkg(fv.pkgPath), fv.relName, ord), Func: shortPkg(fv.pkgPath) + "." + fv.relName,
		Kind: "cover", Guard: s1.reach, Goal: "false", Prefix: len(fv.script), Expect: "sat", Props: fv.defaultProps(), Region: fv.region,
	})
	fv.region = 0

	// 3. after the call
	havocBoth(st)
	rs := fv.freshResults(st, sig, "fold")
	fv.assumeValidResults(st, sig, rs)
	Df := fv.fresh("done")
	fv.emit(fmt.Sprintf("(declare-fun %s (Int) Bool)", Df))
	ctx3 := mkCtx(st, rs[0], func(k string) string { return sx(Df, k) })
	for _, inv := range spec.Invariants {
		if t, err := fv.trySpec(ctx3, inv); err == nil {
			fv.assume(st, t)
		}
	}
	q := fv.fresh("q!k")
	fv.assume(st, implies(eq(sx("s-base", rs[1]), "0"), fmt.Sprintf("(forall ((%s Int)) %s)", q, implies(and(sx("<=", "0", q), sx("<", q, n)), sx(Df, q)))))
	// errs != nil only if some mapF call failed: a witness call (side state guarded by errs != nil)
	{
		fv.regionCount++
		saveRegion := fv.region
		s2 := st.clone()
		s2.reach = and(st.reach, not(eq(sx("s-base", rs[1]), "0")))
		xw := fv.freshConst("failitem", "Int")
		fv.assume(s2, and(sx("<=", "0", xw), sx("<", xw, n)))
		wvars := map[string]SVal{}
		if len(mapFn.Params) == 1 {
			wvars[mapFn.Params[0].Name()] = SVal{fv.read(s2, itemFam, sx("s-base", payload), sx("+", sx("s-off", payload), xw)), mapFn.Params[0].Type()}
		}
		fv.suppressObl = true
		wres := fv.applyContractRet(s2, mapC, mapFn.Pkg.Pkg, mapFn.Signature, fmt.Sprintf("fold%d.map", ord), wvars, mapBind, pos)
		fv.suppressObl = false
		if len(wres) == 2 {
			fv.assume(s2, not(eq(wres[1], "any-nil")))
		}
		fv.region = saveRegion
	}
	// errs is either nil or non-empty
	fv.assume(st, or(eq(sx("s-base", rs[1]), "0"), sx(">", sx("s-len", rs[1]), "0")))
	fv.setResults(st, v, rs)
}

// closureOf resolves a function-typed argument to the function literal it denotes.
func closureOf(v ssa.Value) (*ssa.Function, []ssa.Value, bool) {
	switch x := v.(type) {
	case *ssa.MakeClosure:
		return x.Fn.(*ssa.Function), x.Bindings, true
	case *ssa.Function:
		return x, nil, true
	case *ssa.ChangeType:
		return closureOf(x.X)
	}
	return nil, nil, false
}

// modelForName: l.ForName(name) for a gqlparser list type []*T where T has a Name field:
// nil iff no element has that name; otherwise an element of the list with that name.
func (fv *FV) modelForName(st *State, ins ssa.CallInstruction, v ssa.Value, callee *ssa.Function, args []string) bool {
	cc := ins.Common()
	sl, ok := cc.Args[0].Type().Underlying().(*types.Slice)
	if !ok {
		return false
	}
	pt, ok := sl.Elem().Underlying().(*types.Pointer)
	if !ok {
		return false
	}
	stt, ok := pt.Elem().Underlying().(*types.Struct)
	if !ok {
		return false
	}
	ni := -1
	for i := 0; i < stt.NumFields(); i++ {
		if stt.Field(i).Name() == "Name" && isString(stt.Field(i).Type()) {
			ni = i
		}
	}
	if ni < 0 {
		return false
	}
	l, name := args[0], args[1]
	ef := fv.elemFam(sl.Elem())
	nf := fv.fieldFam(pt.Elem(), ni)
	res := fv.freshConst("forname", "Int")
	fv.assume(st, sx("<", res, st.wm))
	q := fv.fresh("q!i")
	elem := func(i string) string { return fv.read(st, ef, sx("s-base", l), sx("+", sx("s-off", l), i)) }
	inRange := func(i string) string { return and(sx("<=", "0", i), sx("<", i, sx("s-len", l))) }
	// nil iff no element is named so
	fv.assume(st, eq(eq(res, "0"), fmt.Sprintf("(forall ((%s Int)) %s)", q, implies(inRange(q), not(eq(fv.read(st, nf, elem(q)), name))))))
	w := fv.freshConst("fornameidx", "Int")
	fv.assume(st, implies(not(eq(res, "0")), and(inRange(w), eq(elem(w), res), eq(fv.read(st, nf, res), name))))
	q2 := fv.fresh("q!i")
	fv.assume(st, implies(not(eq(res, "0")), fmt.Sprintf("(forall ((%s Int)) %s)", q2, implies(and(sx("<=", "0", q2), sx("<", q2, w)), not(eq(fv.read(st, nf, elem(q2)), name))))))
	fv.setVal(v, res)
	fv.used("gqlparser XList.ForName(name): nil iff no element has that Name, else the first element of the list with that Name")
	return true
}

// nonVacuousErr: err is nil or does not format to an empty list (gqlerrors.ErrorList{} / gqlerror.List{}).
func (fv *FV) nonVacuousErr(e string) string {
	var conds []string
	for _, tn := range [][2]string{{repoModule + "/gqlerrors", "ErrorList"}, {"github.com/vektah/gqlparser/v2/gqlerror", "List"}} {
		p := fv.eng.pkgByPath[tn[0]]
		if p == nil || p.Types == nil {
			continue
		}
		o, ok := p.Types.Scope().Lookup(tn[1]).(*types.TypeName)
		if !ok {
			continue
		}
		conds = append(conds, and(fv.u.isType(e, o.Type()), eq(sx("s-len", sx("a-slice", e)), "0")))
	}
	if len(conds) == 0 {
		return ""
	}
	return not(or(conds...))
}

// applyContractRet is applyContractCore returning the result terms.
func (fv *FV) applyContractRet(st *State, c *Contract, pkg *types.Package, sig *types.Signature, fname string, vars, cellVars map[string]SVal, pos token.Pos) []string {
	tmp := &retCatcher{}
	fv.catch = tmp
	fv.applyContractCore(st, nil, c, pkg, sig, fname, vars, cellVars, pos)
	fv.catch = nil
	return tmp.rs
}

type retCatcher struct{ rs []string }
