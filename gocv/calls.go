package main

import (
	"fmt"
	"go/ast"
	"go/token"
	"go/types"
	"sort"
	"strings"

	"golang.org/x/tools/go/ssa"
)

func (fv *FV) setResults(st *State, v ssa.Value, results []string) {
	if v == nil {
		return
	}
	if tup, ok := v.Type().(*types.Tuple); ok {
		_ = tup
		fv.tuples[v] = results
		return
	}
	if len(results) == 1 {
		fv.vals[v] = results[0]
	}
}

func (fv *FV) freshResults(st *State, sig *types.Signature, prefix string) []string {
	var rs []string
	for i := 0; i < sig.Results().Len(); i++ {
		t := sig.Results().At(i).Type()
		c := fv.freshConst(prefix, fv.u.sortOf(t))
		rs = append(rs, c)
	}
	return rs
}

func (fv *FV) assumeValidResults(st *State, sig *types.Signature, rs []string) {
	for i := 0; i < sig.Results().Len(); i++ {
		fv.assume(st, fv.valid(rs[i], sig.Results().At(i).Type(), st.wm))
	}
}

func (fv *FV) bumpWM(st *State) {
	nw := fv.freshConst("wm", "Int")
	fv.assume(st, sx(">=", nw, st.wm))
	st.wm = nw
}

func calleeName(fn *ssa.Function) string {
	if fn.Pkg != nil {
		return fn.Pkg.Pkg.Path() + "." + fn.RelString(fn.Pkg.Pkg)
	}
	s := fn.String()
	return s
}

// origin strips generic instantiation: returns name of the generic origin.
func originName(fn *ssa.Function) string {
	if o := fn.Origin(); o != nil {
		return calleeName(o)
	}
	return calleeName(fn)
}

func (fv *FV) execCall(st *State, ins ssa.CallInstruction, v ssa.Value) {
	cc := ins.Common()
	pos := ins.Pos()
	// arguments
	var args []string
	for _, a := range cc.Args {
		args = append(args, fv.val(st, a))
	}
	if cc.IsInvoke() {
		fv.callInvoke(st, ins, v, args)
		return
	}
	switch callee := cc.Value.(type) {
	case *ssa.Builtin:
		fv.callBuiltin(st, ins, v, callee, args)
		return
	case *ssa.Function:
		fv.callStatic(st, ins, v, callee, args, nil)
		return
	case *ssa.MakeClosure:
		fv.callStatic(st, ins, v, callee.Fn.(*ssa.Function), args, callee)
		return
	}
	// dynamic function value
	_ = pos
	fnv := fv.val(st, cc.Value)
	fv.oblige(st, "nil", fv.srcLabel(pos, "call "+cc.Value.Name()), sx("distinct", fnv, "0"), pos, nil)
	sig := cc.Signature()
	// contract on the named function type (callbacks supplied by the embedding application)
	if named, ok := cc.Value.Type().(*types.Named); ok && named.Obj().Pkg() != nil {
		if c := fv.eng.contracts.lookup(named.Obj().Pkg().Path(), named.Obj().Name()); c != nil {
			vars := map[string]SVal{}
			pn := paramNames(sig)
			for i := range pn {
				if i < len(c.ParamNames) {
					pn[i] = c.ParamNames[i]
				}
				vars[pn[i]] = SVal{args[i], sig.Params().At(i).Type()}
			}
			fv.applyContractCore(st, v, c, named.Obj().Pkg(), sig, named.Obj().Name(), vars, nil, pos)
			return
		}
	}
	fv.havocAll(st, "dynamic call "+fv.srcLabel(pos, cc.Value.Name()))
	rs := fv.freshResults(st, sig, "dyn")
	fv.assumeValidResults(st, sig, rs)
	fv.setResults(st, v, rs)
}

func (fv *FV) callBuiltin(st *State, ins ssa.CallInstruction, v ssa.Value, b *ssa.Builtin, args []string) {
	cc := ins.Common()
	pos := ins.Pos()
	switch b.Name() {
	case "len":
		t := cc.Args[0].Type()
		switch tt := t.Underlying().(type) {
		case *types.Slice:
			fv.bind(st, v, sx("s-len", args[0]))
		case *types.Map:
			c := fv.bind(st, v, fv.mapLen(st, t, args[0]))
			fv.assume(st, sx(">=", c, "0"))
		case *types.Basic:
			fv.bind(st, v, sx("str.len", args[0]))
		case *types.Chan:
			fv.bindFresh(st, v)
		default:
			_ = tt
			fv.bindFresh(st, v)
		}
	case "cap":
		if _, ok := cc.Args[0].Type().Underlying().(*types.Slice); ok {
			fv.bind(st, v, sx("s-cap", args[0]))
		} else {
			fv.bindFresh(st, v)
		}
	case "append":
		fv.callAppend(st, ins, v, args)
	case "copy":
		// dst elements overwritten: havoc the destination's elements
		if sl, ok := cc.Args[0].Type().Underlying().(*types.Slice); ok {
			f := fv.elemFam(sl.Elem())
			_, names := famParams(f)
			fv.frameCheck(st, f, []string{sx("s-base", args[0]), "0"}, "copy")
			fv.havocFamily(st, f, eq(names[0], sx("s-base", args[0])))
		}
		if v != nil {
			fv.bindFresh(st, v)
		}
	case "delete":
		mt := cc.Args[0].Type()
		mm := mt.Underlying().(*types.Map)
		k := args[1]
		if isInterface(mm.Key()) && !isInterface(cc.Args[1].Type()) {
			k = fv.u.box(k, cc.Args[1].Type())
		}
		fv.guardCheck(st, args[0], true, pos, "map delete")
		fv.mapDelete(st, mt, args[0], k)
	case "close":
		fv.noteUnsupported("close(chan)")
	case "panic":
		fv.oblige(st, "panic", fv.srcLabel(pos, "panic"), "false", pos, nil)
	case "print", "println":
	case "ssa:wrapnilchk":
		fv.oblige(st, "nil", fv.srcLabel(pos, "wrapnilchk"), sx("distinct", args[0], "0"), pos, nil)
		fv.setVal(v, args[0])
	case "ssa:deferstack":
		fv.setVal(v, "0")
	case "min", "max":
		a, bb := args[0], args[1]
		if b.Name() == "min" {
			fv.bind(st, v, ite(sx("<=", a, bb), a, bb))
		} else {
			fv.bind(st, v, ite(sx(">=", a, bb), a, bb))
		}
	case "recover":
		fv.noteUnsupported("recover")
		fv.bindFresh(st, v)
	default:
		fv.noteUnsupported("builtin " + b.Name())
		if v != nil {
			if _, isTuple := v.Type().(*types.Tuple); !isTuple {
				fv.bindFresh(st, v)
			}
		}
	}
}

// append(s, t...) modelled exactly: in place when it fits, fresh backing array otherwise.
func (fv *FV) callAppend(st *State, ins ssa.CallInstruction, v ssa.Value, args []string) {
	cc := ins.Common()
	s, t := args[0], args[1]
	sl := cc.Args[0].Type().Underlying().(*types.Slice)
	elem := sl.Elem()
	var n string
	tIsString := isString(cc.Args[1].Type())
	if tIsString {
		n = sx("str.len", t)
	} else {
		n = sx("s-len", t)
	}
	sb, so, slen, scap := sx("s-base", s), sx("s-off", s), sx("s-len", s), sx("s-cap", s)
	newLen := fv.fresh("alen")
	fv.emit(fmt.Sprintf("(define-fun %s () Int (+ %s %s))", newLen, slen, n))
	fits := fv.fresh("afits")
	fv.emit(fmt.Sprintf("(define-fun %s () Bool (<= %s %s))", fits, newLen, scap))
	nb := fv.alloc(st)
	ncap := fv.freshConst("acap", "Int")
	fv.assume(st, sx(">=", ncap, newLen))
	res := ite(fits, sx("mk-slice", sb, so, newLen, scap), sx("mk-slice", nb, "0", newLen, ncap))
	// appending nothing to a nil slice yields nil
	res = ite(and(eq(n, "0"), eq(sb, "0")), "nil-slice", res)
	if _, isStruct := elem.Underlying().(*types.Struct); isStruct {
		fv.assumptionsUsed["append on struct slices: element contents not tracked (over-approximation)"] = true
		fv.bind(st, v, res)
		return
	}
	f := fv.elemFam(elem)
	_, names := famParams(f)
	b, i := names[0], names[1]
	cur := fv.famSym(st, f)
	var tElem func(idx string) string
	if tIsString {
		tElem = func(idx string) string { return sx("str.to_code", sx("str.at", t, idx)) }
	} else {
		tb, to := sx("s-base", t), sx("s-off", t)
		tElem = func(idx string) string { return sx(cur, tb, sx("+", to, idx)) }
	}
	// in-place part: positions [so+slen, so+slen+n) of base sb
	inPlaceHit := and(fits, sx("distinct", n, "0"), eq(b, sb), sx("<=", sx("+", so, slen), i), sx("<", i, sx("+", so, newLen)))
	inPlaceVal := tElem(sx("-", i, sx("+", so, slen)))
	// fresh part: positions [0,slen) copy of s, [slen,newLen) copy of t
	freshHit := and(not(fits), eq(b, nb), sx("<=", "0", i), sx("<", i, newLen))
	freshVal := ite(sx("<", i, slen), sx(cur, sb, sx("+", so, i)), tElem(sx("-", i, slen)))
	fv.frameCheckCond(st, f, and(fits, sx("distinct", n, "0")), []string{sb, "0"}, "append in place")
	fv.writeWhere(st, f, or(inPlaceHit, freshHit), ite(inPlaceHit, inPlaceVal, freshVal))
	fv.bind(st, v, res)
}

// ---------------------------------------------------------------------------
// static calls

// watchedName: the name under which contracts refer to a callee in lastresult()/lastarg()/atlast().
func watchedName(callee *ssa.Function) string {
	n := callee.Name()
	if i := strings.Index(n, "["); i > 0 {
		n = n[:i]
	}
	return n
}

func (fv *FV) callStatic(st *State, ins ssa.CallInstruction, v ssa.Value, callee *ssa.Function, args []string, mc *ssa.MakeClosure) {
	wn := watchedName(callee)
	if !fv.eng.watched[wn] {
		fv.callStaticInner(st, ins, v, callee, args, mc)
		return
	}
	snap := st.clone()
	sig := callee.Signature
	rec := &lastCall{snap: snap, valid: "true"}
	// the argument list of a method call starts with the receiver
	var ptypes []types.Type
	if sig.Recv() != nil {
		ptypes = append(ptypes, sig.Recv().Type())
	}
	for i := 0; i < sig.Params().Len(); i++ {
		ptypes = append(ptypes, sig.Params().At(i).Type())
	}
	for i, a := range args {
		if i < len(ptypes) {
			rec.args = append(rec.args, SVal{a, ptypes[i]})
		}
	}
	fv.callStaticInner(st, ins, v, callee, args, mc)
	if v != nil && sig.Results().Len() == 1 {
		rec.res = []SVal{{fv.val(st, v), sig.Results().At(0).Type()}}
	}
	if st.last == nil {
		st.last = map[string]*lastCall{}
	}
	st.last[wn] = rec
}

func (fv *FV) callStaticInner(st *State, ins ssa.CallInstruction, v ssa.Value, callee *ssa.Function, args []string, mc *ssa.MakeClosure) {
	pos := ins.Pos()
	name := originName(callee)
	fv.calleesUsed[name] = true
	if fv.contract != nil {
		for i, cs := range fv.contract.CallSites {
			if cs.Callee == callee.Name() || strings.HasSuffix(name, "."+cs.Callee) {
				ctx := fv.newSpecCtx(fv.pkgTypes(), st, fv.entry)
				for k, vv := range fv.params {
					ctx.vars[k+"0"] = vv
				}
				ctx.cellVars = fv.cellVarsOf()
				blk := fv.curBlock
				ctx.lookup = func(nm string, ss *State) (SVal, bool) {
					a := fv.localByName(nm, blk)
					if a == nil {
						if vv, ok := fv.params[nm]; ok {
							return vv, true
						}
						return SVal{}, false
					}
					elem := a.Type().Underlying().(*types.Pointer).Elem()
					return SVal{fv.loadLoc(ss, fv.locOf(ss, a)), elem}, true
				}
				fv.obligeSpec(st, "callsite", fmt.Sprintf("%s:%s", cs.Callee, clauseLabel(cs.Clause, i)), ctx, cs.Clause, pos, cs.Clause.Props, "callsite clause")
			}
		}
	}
	// gqlparser's XList.ForName(name): first element with that Name, or nil
	if callee.Name() == "ForName" && strings.Contains(name, "gqlparser") && len(args) == 2 {
		if fv.modelForName(st, ins, v, callee, args) {
			return
		}
	}
	// library / special models
	if m, ok := libModels[name]; ok {
		if m(fv, st, ins, v, callee, args) {
			return
		}
	}
	if name == "github.com/buildbuildio/pebbles/common.AsyncMapReduce" {
		fv.callFold(st, ins, v, callee, args)
		return
	}
	var bindings []string
	if mc != nil {
		for _, b := range mc.Bindings {
			bindings = append(bindings, fv.val(st, b))
		}
	}
	if c := fv.eng.contractFor(callee); c != nil {
		fv.applyContract(st, ins, v, callee, c, args, bindings, pos)
		return
	}
	if callee.Pkg != nil {
		if c := fv.eng.contracts.lookup(callee.Pkg.Pkg.Path(), callee.RelString(callee.Pkg.Pkg)); c != nil {
			fv.applyContract(st, ins, v, callee, c, args, bindings, pos)
			return
		}
	}
	sig := callee.Signature
	if callee.Pkg != nil && fv.eng.inRepo(callee.Pkg.Pkg.Path()) || (callee.Parent() != nil) {
		// repo function without a contract: havoc what it may write (inferred), arbitrary results
		mods := fv.eng.modFamilies(callee)
		fv.bumpWM(st)
		fv.havocKeys(st, mods, "call "+callee.Name())
		fv.frameCheckCallee(st, mods, "call "+callee.Name())
		rs := fv.freshResults(st, sig, "r_"+sanitize(callee.Name()))
		fv.assumeValidResults(st, sig, rs)
		fv.setResults(st, v, rs)
		fv.unmodelled["repo callee without contract: "+shortName(name)] = true
		return
	}
	// external function without a model: assumed not to modify memory visible to the
	// caller, except through pointer arguments (their targets are havocked)
	fv.externalCall(st, ins, v, callee.Signature, name, args)
}

func shortName(n string) string {
	return strings.Replace(n, "github.com/buildbuildio/pebbles/", "", 1)
}

func (fv *FV) externalCall(st *State, ins ssa.CallInstruction, v ssa.Value, sig *types.Signature, name string, args []string) {
	cc := ins.Common()
	fv.bumpWM(st)
	for i, a := range cc.Args {
		fv.havocPointee(st, a, args[i])
	}
	rs := fv.freshResults(st, sig, "x_"+sanitize(lastDot(name)))
	fv.assumeValidResults(st, sig, rs)
	fv.assumeForeignErrs(st, sig, rs)
	if !strings.Contains(name, "gqlparser") {
		for i := 0; i < sig.Results().Len(); i++ {
			if named, ok := sig.Results().At(i).Type().(*types.Named); ok && named.Obj().Name() == "error" && named.Obj().Pkg() == nil {
				if nv := fv.nonVacuousErr(rs[i]); nv != "" {
					fv.assume(st, nv) // only gqlparser produces gqlerror.List values
				}
			}
		}
	}
	fv.setResults(st, v, rs)
	fv.unmodelled["external: "+name] = true
}

// assumeForeignErrs: code outside the repository cannot construct the repository's
// gqlerrors.ErrorList, so an error it returns is never one.
func (fv *FV) assumeForeignErrs(st *State, sig *types.Signature, rs []string) {
	p := fv.eng.pkgByPath[repoModule+"/gqlerrors"]
	if p == nil || p.Types == nil {
		return
	}
	o, ok := p.Types.Scope().Lookup("ErrorList").(*types.TypeName)
	if !ok {
		return
	}
	for i := 0; i < sig.Results().Len(); i++ {
		t := sig.Results().At(i).Type()
		if named, ok := t.(*types.Named); ok && named.Obj().Name() == "error" && named.Obj().Pkg() == nil {
			fv.assume(st, not(fv.u.isType(rs[i], o.Type())))
			fv.used("errors returned by code outside the repository are never gqlerrors.ErrorList values")
		}
	}
}

func lastDot(s string) string {
	if i := strings.LastIndexAny(s, "./"); i >= 0 {
		return s[i+1:]
	}
	return s
}

// havocPointee: an unknown callee may write through a pointer it receives.
func (fv *FV) havocPointee(st *State, a ssa.Value, term string) {
	// unwrap MakeInterface(&x)
	if mi, ok := a.(*ssa.MakeInterface); ok {
		a = mi.X
	}
	pt, ok := a.Type().Underlying().(*types.Pointer)
	if !ok {
		return
	}
	if l, ok := fv.ptrs[a]; ok {
		if l.reg != nil {
			c := fv.freshConst("hv", fv.u.sortOf(l.ty))
			fv.assume(st, fv.valid(c, l.ty, st.wm))
			st.cells[l.reg] = c
			return
		}
		if l.fam != "" {
			f := fv.fams[l.fam]
			c := fv.freshConst("hv", f.ResSort)
			fv.write(st, f, l.args, c)
			fv.assume(st, fv.valid(c, l.ty, st.wm))
			return
		}
	}
	// pointer to struct: havoc all its fields at that ref
	elem := pt.Elem()
	if stt, ok := elem.Underlying().(*types.Struct); ok {
		if named, ok := elem.(*types.Named); ok && named.Obj().Pkg() != nil && !fv.eng.inRepo(named.Obj().Pkg().Path()) {
			return // foreign struct: its fields are not tracked anyway
		}
		r := fv.val(st, a)
		for i := 0; i < stt.NumFields(); i++ {
			ft := stt.Field(i).Type()
			if _, inner := ft.Underlying().(*types.Struct); inner {
				continue
			}
			f := fv.fieldFam(elem, i)
			c := fv.freshConst("hv", f.ResSort)
			fv.write(st, f, []string{r}, c)
			fv.assume(st, fv.valid(c, ft, st.wm))
		}
		return
	}
	f := fv.cellFam(elem)
	c := fv.freshConst("hv", f.ResSort)
	fv.write(st, f, []string{fv.val(st, a)}, c)
}

func (fv *FV) havocKeys(st *State, keys map[string]bool, why string) {
	if keys["*"] {
		fv.havocAll(st, why)
		return
	}
	ks := make([]string, 0, len(keys))
	for k := range keys {
		ks = append(ks, k)
	}
	sort.Strings(ks)
	for _, k := range ks {
		if f, ok := fv.fams[k]; ok {
			fv.havocFamily(st, f, "true")
		} else {
			// family not (yet) known to this function: create it so the next pass havocs it
			fv.eng.materialise(fv, k)
			if f, ok := fv.fams[k]; ok {
				fv.havocFamily(st, f, "true")
			}
		}
	}
}

// ---------------------------------------------------------------------------
// interface method calls

func (fv *FV) callInvoke(st *State, ins ssa.CallInstruction, v ssa.Value, args []string) {
	cc := ins.Common()
	pos := ins.Pos()
	recv := fv.val(st, cc.Value)
	fv.oblige(st, "nil", fv.srcLabel(pos, cc.Value.Name()+"."+cc.Method.Name()), not(eq(recv, "any-nil")), pos, nil)
	sig := cc.Signature()
	// Error() on an error value: pure
	if cc.Method.Name() == "Error" && sig.Params().Len() == 0 && sig.Results().Len() == 1 && isString(sig.Results().At(0).Type()) {
		fv.bind(st, v, sx("err-msg", recv))
		return
	}
	// contract on the interface method?
	if named, ok := cc.Value.Type().(*types.Named); ok && named.Obj().Pkg() != nil {
		rel := named.Obj().Name() + "." + cc.Method.Name()
		if c := fv.eng.contracts.lookup(named.Obj().Pkg().Path(), rel); c != nil {
			pn := paramNames(sig)
			for i := range pn {
				if i < len(c.ParamNames) {
					pn[i] = c.ParamNames[i]
				}
			}
			cpkg := named.Obj().Pkg()
			if c.Extern {
				if dp := fv.eng.pkgByPath[c.DeclPkg]; dp != nil && dp.Types != nil {
					cpkg = dp.Types
				}
			}
			fv.applyContractGeneric(st, ins, v, c, cpkg, sig, cc.Method.Name(), append([]string{recv}, args...), append([]string{"self"}, pn...), pos)
			return
		}
		if fv.eng.inRepo(named.Obj().Pkg().Path()) {
			fv.havocAll(st, "interface call "+rel+" without contract")
			rs := fv.freshResults(st, sig, "iv")
			fv.assumeValidResults(st, sig, rs)
			fv.setResults(st, v, rs)
			return
		}
	}
	// foreign interface (io.Reader, http.ResponseWriter, ...): frame-preserving by assumption
	fv.externalCall(st, ins, v, sig, "iface "+cc.Value.Type().String()+"."+cc.Method.Name(), args)
}

func paramNames(sig *types.Signature) []string {
	var ns []string
	for i := 0; i < sig.Params().Len(); i++ {
		n := sig.Params().At(i).Name()
		if n == "" || n == "_" {
			n = fmt.Sprintf("arg%d", i)
		}
		ns = append(ns, n)
	}
	return ns
}

// ---------------------------------------------------------------------------
// contract application at a call site

func (fv *FV) resultNames(c *Contract, sig *types.Signature) []string {
	var ns []string
	for i := 0; i < sig.Results().Len(); i++ {
		n := sig.Results().At(i).Name()
		if i < len(c.Returns) && c.Returns[i] != "" {
			n = c.Returns[i]
		}
		if n == "" || n == "_" {
			n = fmt.Sprintf("res%d", i)
		}
		ns = append(ns, n)
	}
	return ns
}

func (fv *FV) applyContract(st *State, ins ssa.CallInstruction, v ssa.Value, callee *ssa.Function, c *Contract, args []string, bindings []string, pos token.Pos) {
	sig := callee.Signature
	var names []string
	var vals []string
	var tys []types.Type
	for i, p := range callee.Params {
		names = append(names, p.Name())
		vals = append(vals, args[i])
		tys = append(tys, p.Type())
	}
	vars := map[string]SVal{}
	for i := range names {
		vars[names[i]] = SVal{vals[i], tys[i]}
	}
	cellVars := map[string]SVal{}
	for i, fvv := range callee.FreeVars {
		if i < len(bindings) {
			cellVars[fvv.Name()] = SVal{bindings[i], fvv.Type()}
		}
	}
	pkg := callee.Pkg.Pkg
	if c.Extern {
		if dp := fv.eng.pkgByPath[c.DeclPkg]; dp != nil && dp.Types != nil {
			pkg = dp.Types
		}
	}
	fv.applyContractCore(st, v, c, pkg, sig, callee.Name(), vars, cellVars, pos)
}

func (fv *FV) applyContractGeneric(st *State, ins ssa.CallInstruction, v ssa.Value, c *Contract, pkg *types.Package, sig *types.Signature, fname string, args []string, names []string, pos token.Pos) {
	vars := map[string]SVal{}
	// names[0] is the receiver "self"
	cc := ins.Common()
	vars["self"] = SVal{args[0], cc.Value.Type()}
	for i := 0; i < sig.Params().Len(); i++ {
		vars[names[i+1]] = SVal{args[i+1], sig.Params().At(i).Type()}
	}
	fv.applyContractCore(st, v, c, pkg, sig, fname, vars, nil, pos)
}

func (fv *FV) applyContractCore(st *State, v ssa.Value, c *Contract, pkg *types.Package, sig *types.Signature, fname string, vars map[string]SVal, cellVars map[string]SVal, pos token.Pos) {
	ctx := fv.newSpecCtx(pkg, st, nil)
	ctx.vars = vars
	ctx.cellVars = cellVars
	// preconditions
	for i, r := range c.Requires {
		label := fmt.Sprintf("%s:%s", c.FuncName, clauseLabel(r, i))
		fv.obligeSpec(st, "pre", label, ctx, r, pos, nil, "requires of "+c.FuncName)
	}
	pre := st.clone()
	// frame (the watermark moves first: havocked locations may hold objects the callee allocated)
	fv.bumpWM(st)
	fv.applyModifies(st, ctx, c, pkg, fname)
	// results
	rnames := fv.resultNames(c, sig)
	rs := fv.freshResults(st, sig, "r_"+sanitize(fname))
	fv.assumeValidResults(st, sig, rs)
	post := fv.newSpecCtx(pkg, st, pre)
	post.vars = map[string]SVal{}
	for k, vv := range vars {
		post.vars[k] = vv
	}
	post.cellVars = cellVars
	for i, n := range rnames {
		post.vars[n] = SVal{rs[i], sig.Results().At(i).Type()}
	}
	if len(rs) == 1 {
		post.vars["result"] = SVal{rs[0], sig.Results().At(0).Type()}
	}
	post.freshBase = pre.wm
	for _, e := range append(append([]*Clause{}, c.Ensures...), c.AssumedPost...) {
		// a postcondition over the callee's own call records (lastcalled(F), lastarg(F, i), ...) says which calls
		// the callee's body makes; read in the caller's state it would be about the caller's records (usually
		// none: `false`, and everything after the call would be proved vacuously). It is proved for the body and
		// tells the caller nothing.
		if watchedRe.MatchString(e.Text) {
			continue
		}
		t, err := fv.trySpec(post, e)
		if err != nil {
			fv.specErrs = append(fv.specErrs, fmt.Sprintf("%s: ensures of %s: %v", fv.relName, c.FuncName, err))
			continue
		}
		fv.origin = e.Name
		fv.assume(st, t)
		fv.origin = ""
	}
	if fv.catch != nil {
		fv.catch.rs = rs
	}
	fv.setResults(st, v, rs)
}

func clauseLabel(c *Clause, i int) string {
	if c.Name != "" {
		return c.Name
	}
	t := c.Text
	if len(t) > 60 {
		t = t[:60]
	}
	return t
}

func (fv *FV) trySpec(ctx *SpecCtx, c *Clause) (term string, err error) {
	defer func() {
		if r := recover(); r != nil {
			if se, ok := r.(specError); ok {
				err = fmt.Errorf("%s:%d: %s", c.File, c.Line, se.msg)
				return
			}
			panic(r)
		}
	}()
	return ctx.trBool(c.Expr), nil
}

// applyModifies havocs what the callee's contract says it may modify.
func (fv *FV) applyModifies(st *State, ctx *SpecCtx, c *Contract, pkg *types.Package, fname string) {
	if !c.HasMod {
		// no modifies clause: inferred families of the implementation, or everything for interfaces
		if fn := fv.eng.findFunc(c.Pkg, c.FuncName); fn != nil {
			mods := fv.eng.modFamilies(fn)
			fv.havocKeys(st, mods, "call "+fname)
			fv.frameCheckCallee(st, mods, "call "+fname)
		} else {
			fv.havocAll(st, "call "+fname+" (no modifies clause)")
		}
		return
	}
	items, err := fv.modItems(ctx, c.Modifies)
	if err != nil {
		fv.specErrs = append(fv.specErrs, fmt.Sprintf("%s: modifies of %s: %v", fv.relName, c.FuncName, err))
		fv.havocAll(st, "bad modifies")
		return
	}
	for _, it := range items {
		if it.all {
			fv.havocAll(st, "modifies anything")
			return
		}
	}
	// group by family
	byFam := map[string][]string{}
	var order []string
	for _, it := range items {
		if it.fam == nil {
			continue
		}
		if _, ok := byFam[it.fam.Key]; !ok {
			order = append(order, it.fam.Key)
		}
		byFam[it.fam.Key] = append(byFam[it.fam.Key], it.cond)
		// the caller's own frame: the callee's footprint must be inside it
		if it.ref != "" {
			fv.inCalleeFrame = true
			fv.frameCheck(st, it.fam, []string{it.ref, "0"}[:len(it.fam.ArgSorts)], "call "+fname)
			fv.inCalleeFrame = false
		} else {
			fv.frameCheckCallee(st, map[string]bool{it.fam.Key: true}, "call "+fname)
		}
	}
	for _, k := range order {
		fv.havocFamily(st, fv.fams[k], or(byFam[k]...))
	}
}

type modItem struct {
	fam  *Family
	cond string // over r!a, r!b
	ref  string // the object ref when the item addresses a single object
	all  bool
}

// modItems translates modifies items in the given context:
//
//	fresh            objects allocated by the callee (no havoc needed)
//	anything
//	x.f              field f of *x
//	x.*              all fields of *x
//	x[*]             all elements of slice x / all entries of map x
//	*p               the cell p points to (closure variable by name)
//	all(T.f)         field f of every T  (T a struct type name)
//	elems(T)         elements of every []T
func (fv *FV) modItems(ctx *SpecCtx, clauses []*Clause) (items []modItem, err error) {
	defer func() {
		if r := recover(); r != nil {
			if se, ok := r.(specError); ok {
				err = fmt.Errorf("%s", se.msg)
				return
			}
			panic(r)
		}
	}()
	for _, cl := range clauses {
		t := strings.TrimSpace(cl.Text)
		switch {
		case t == "fresh" || t == "ghost":
			continue
		case t == "anything":
			items = append(items, modItem{all: true})
		case strings.HasSuffix(t, "[*]"):
			e, perr := parseSpecExpr(t[:len(t)-3])
			if perr != nil {
				return nil, perr
			}
			v := ctx.tr(e)
			switch tt := v.ty.Underlying().(type) {
			case *types.Slice:
				f := fv.elemFam(tt.Elem())
				_, names := famParams(f)
				items = append(items, modItem{fam: f, cond: and(eq(names[0], sx("s-base", v.t)), sx("distinct", names[0], "0")), ref: sx("s-base", v.t)})
			case *types.Map:
				dom, val, card := fv.mapFams(v.ty)
				for _, f := range []*Family{dom, val, card} {
					_, names := famParams(f)
					items = append(items, modItem{fam: f, cond: eq(names[0], v.t), ref: v.t})
				}
			default:
				specFail("modifies %s: not a slice or map", t)
			}
		case strings.HasSuffix(t, ".*"):
			e, perr := parseSpecExpr(t[:len(t)-2])
			if perr != nil {
				return nil, perr
			}
			v := ctx.tr(e)
			pt, ok := v.ty.Underlying().(*types.Pointer)
			if !ok {
				specFail("modifies %s: not a pointer", t)
			}
			stt, ok := pt.Elem().Underlying().(*types.Struct)
			if !ok {
				specFail("modifies %s: not a struct pointer", t)
			}
			for i := 0; i < stt.NumFields(); i++ {
				if _, inner := stt.Field(i).Type().Underlying().(*types.Struct); inner {
					continue
				}
				f := fv.fieldFam(pt.Elem(), i)
				_, names := famParams(f)
				items = append(items, modItem{fam: f, cond: eq(names[0], v.t), ref: v.t})
			}
		case strings.HasPrefix(t, "all(") && strings.HasSuffix(t, ")"):
			inner := t[4 : len(t)-1]
			i := strings.LastIndex(inner, ".")
			if i < 0 {
				specFail("modifies %s: want all(T.f)", t)
			}
			ty := ctx.resolveTypeString(inner[:i])
			stt, ok := ty.Underlying().(*types.Struct)
			if !ok {
				specFail("modifies %s: %s is not a struct", t, inner[:i])
			}
			found := false
			for k := 0; k < stt.NumFields(); k++ {
				if stt.Field(k).Name() == inner[i+1:] {
					items = append(items, modItem{fam: fv.fieldFam(ty, k), cond: "true"})
					found = true
				}
			}
			if !found {
				specFail("modifies %s: no such field", t)
			}
		case strings.HasPrefix(t, "global(") && strings.HasSuffix(t, ")"):
			e, perr := parseSpecExpr(t[7 : len(t)-1])
			if perr != nil {
				return nil, perr
			}
			var gv *types.Var
			switch x := e.(type) {
			case *ast.Ident:
				gv, _ = ctx.lookupPkgObj(x.Name).(*types.Var)
			case *ast.SelectorExpr:
				if id, ok := x.X.(*ast.Ident); ok {
					if pn, ok := ctx.lookupPkgObj(id.Name).(*types.PkgName); ok {
						gv, _ = pn.Imported().Scope().Lookup(x.Sel.Name).(*types.Var)
					} else {
						for path, p := range fv.eng.pkgByPath {
							if p.Types != nil && fv.eng.inRepo(path) && p.Types.Name() == id.Name {
								gv, _ = p.Types.Scope().Lookup(x.Sel.Name).(*types.Var)
							}
						}
					}
				}
			}
			if gv == nil {
				specFail("modifies %s: not a package variable", t)
			}
			f := fv.family("G|"+gv.Pkg().Path()+"."+gv.Name(), nil, fv.u.sortOf(gv.Type()))
			items = append(items, modItem{fam: f, cond: "true"})
		case strings.HasPrefix(t, "elems(") && strings.HasSuffix(t, ")"):
			ty := ctx.resolveTypeString(t[6 : len(t)-1])
			items = append(items, modItem{fam: fv.elemFam(ty), cond: "true"})
		case strings.HasPrefix(t, "entries(") && strings.HasSuffix(t, ")"):
			ty := ctx.resolveTypeString(t[8 : len(t)-1])
			dom, val, card := fv.mapFams(ty)
			for _, f := range []*Family{dom, val, card} {
				items = append(items, modItem{fam: f, cond: "true"})
			}
		case strings.HasPrefix(t, "*"):
			name := strings.TrimSpace(t[1:])
			cv, ok := ctx.cellVars[name]
			if !ok {
				// a local variable that lives in memory (its address is taken, or it is a struct):
				// the one object allocated for it before the loop is rewritten on every iteration
				if its, found := fv.localAllocItems(name); found {
					items = append(items, its...)
					continue
				}
				specFail("modifies %s: %s is not a captured variable or a local in memory", t, name)
			}
			elem := cv.ty.Underlying().(*types.Pointer).Elem()
			f := fv.cellFam(elem)
			_, names := famParams(f)
			items = append(items, modItem{fam: f, cond: eq(names[0], cv.t), ref: cv.t})
		default:
			// x.f
			e, perr := parseSpecExpr(t)
			if perr != nil {
				return nil, perr
			}
			it, ferr := fv.modFieldExpr(ctx, e)
			if ferr != nil {
				return nil, ferr
			}
			items = append(items, it)
		}
	}
	return items, nil
}

// modFieldExpr: modifies x.f
func (fv *FV) modFieldExpr(ctx *SpecCtx, e ast.Expr) (modItem, error) {
	sel, ok := e.(*ast.SelectorExpr)
	if !ok {
		return modItem{}, fmt.Errorf("unsupported modifies item %s", exprString(e))
	}
	v := ctx.tr(sel.X)
	pt, ok := v.ty.Underlying().(*types.Pointer)
	if !ok {
		return modItem{}, fmt.Errorf("modifies %s: not a pointer", exprString(e))
	}
	stt, ok := pt.Elem().Underlying().(*types.Struct)
	if !ok {
		return modItem{}, fmt.Errorf("modifies %s: not a struct pointer", exprString(e))
	}
	for i := 0; i < stt.NumFields(); i++ {
		if stt.Field(i).Name() == sel.Sel.Name {
			f := fv.fieldFam(pt.Elem(), i)
			_, names := famParams(f)
			return modItem{fam: f, cond: eq(names[0], v.t), ref: v.t}, nil
		}
	}
	return modItem{}, fmt.Errorf("modifies %s: no such field", exprString(e))
}

// localAllocItems: modifies items for the memory of the local variable `name` (an *ssa.Alloc
// of this function that has been executed): every field of a struct, or the cell.
func (fv *FV) localAllocItems(name string) ([]modItem, bool) {
	var items []modItem
	found := false
	for _, b := range fv.fn.Blocks {
		for _, ins := range b.Instrs {
			a, ok := ins.(*ssa.Alloc)
			if !ok || a.Comment != name {
				continue
			}
			ref, ok := fv.vals[a]
			if !ok {
				// not allocated yet at this point: the object will be fresh for this loop
				found = true
				continue
			}
			elem := fv.derefType(a)
			if stt, isSt := elem.Underlying().(*types.Struct); isSt {
				var add func(ty types.Type, st *types.Struct, r string)
				add = func(ty types.Type, st *types.Struct, r string) {
					for i := 0; i < st.NumFields(); i++ {
						if inner, isInner := st.Field(i).Type().Underlying().(*types.Struct); isInner {
							add(st.Field(i).Type(), inner, fv.faRef(ty, i, r))
							continue
						}
						f := fv.fieldFam(ty, i)
						_, names := famParams(f)
						items = append(items, modItem{fam: f, cond: eq(names[0], r), ref: r})
					}
				}
				add(elem, stt, ref)
				found = true
				continue
			}
			if _, isArr := elem.Underlying().(*types.Array); isArr {
				continue
			}
			f := fv.cellFam(elem)
			_, names := famParams(f)
			items = append(items, modItem{fam: f, cond: eq(names[0], ref), ref: ref})
			found = true
		}
	}
	return items, found
}
