package main

// Relevance pruning of hypotheses. Dropping assertions can only make a proof harder,
// never unsound: "unsat" on a pruned query is a proof of the full one. "sat"/"unknown"
// on a pruned query means nothing and the full query is tried next.

import (
	"regexp"
	"strings"
)

func isSymChar(c byte) bool {
	return c >= 'a' && c <= 'z' || c >= 'A' && c <= 'Z' || c >= '0' && c <= '9' || c == '_' || c == '!' || c == '.' || c == '-' || c == '$' || c == '~'
}

// symbolsOf returns the user symbols of an SMT line (declared by the generator).
func symbolsOf(line string) []string {
	var out []string
	i := 0
	n := len(line)
	for i < n {
		c := line[i]
		if c == '"' {
			i++
			for i < n {
				if line[i] == '"' {
					if i+1 < n && line[i+1] == '"' {
						i += 2
						continue
					}
					break
				}
				i++
			}
			i++
			continue
		}
		if isSymChar(c) && !(c >= '0' && c <= '9') && c != '-' {
			j := i
			for j < n && isSymChar(line[j]) {
				j++
			}
			out = append(out, line[i:j])
			i = j
			continue
		}
		if isSymChar(c) {
			j := i
			for j < n && isSymChar(line[j]) {
				j++
			}
			i = j
			continue
		}
		i++
	}
	return out
}

var builtinSyms = map[string]bool{
	"assert": true, "and": true, "or": true, "not": true, "ite": true, "forall": true, "exists": true, "let": true,
	"distinct": true, "Int": true, "Bool": true, "String": true, "Slice": true, "Any": true, "true": true, "false": true,
	"define-fun": true, "declare-fun": true, "declare-const": true, "div": true, "mod": true,
	"mk-slice": true, "s-base": true, "s-off": true, "s-len": true, "s-cap": true, "slice-ok": true, "nil-slice": true,
	"any-nil": true, "any-str": true, "any-int": true, "any-bool": true, "any-ref": true, "any-slice": true, "any-opq": true,
	"a-str": true, "a-int": true, "a-bool": true, "a-ref": true, "a-slice": true, "a-opq": true,
	"a-stag": true, "a-itag": true, "a-btag": true, "a-rtag": true, "a-sltag": true, "a-otag": true,
	"any-tag": true, "any-wf": true, "tag-kind": true, "no-trigger": true, "ref-ty": true, "tag-uncomparable": true, "go-div": true, "go-mod": true,
	"is": true, "_": true, "str.len": true, "str.++": true, "str.at": true, "str.substr": true, "str.contains": true,
	"str.prefixof": true, "str.suffixof": true, "str.indexof": true, "str.to_code": true, "str.from_code": true,
	"str-itoa": true, "itoa-inv": true, "any-fmt": true, "err-msg": true, "pattern": true,
}

func ubiquitous(s string) bool {
	if builtinSyms[s] {
		return true
	}
	return strings.HasPrefix(s, "reach_") || strings.HasPrefix(s, "e_") || strings.HasPrefix(s, "wm!") || strings.HasPrefix(s, "r!") ||
		strings.HasPrefix(s, "q!") || strings.HasPrefix(s, "c!") || strings.HasPrefix(s, "dfy!") || strings.HasPrefix(s, "dfn!") || strings.HasPrefix(s, "St_") || strings.HasPrefix(s, "mk-St_")
}

type lineInfo struct {
	text    string
	kind    int // 0 decl, 1 define, 2 assert
	defines string
	syms    []string
	pathDef bool
}

// prune keeps declarations/definitions that are needed and the assertions within
// `depth` relevance hops of the goal.
func prune(lines []string, extra []string, guard, goal string, depth int) []string {
	infos := make([]*lineInfo, len(lines))
	definer := map[string]int{}
	for i, l := range lines {
		li := &lineInfo{text: l}
		switch {
		case strings.HasPrefix(l, "(declare-"):
			li.kind = 0
			f := strings.Fields(l)
			if len(f) > 1 {
				li.defines = f[1]
				definer[li.defines] = i
			}
		case strings.HasPrefix(l, "(define-fun "):
			li.kind = 1
			f := strings.Fields(l)
			if len(f) > 1 {
				li.defines = f[1]
				definer[li.defines] = i
			}
			li.syms = symbolsOf(l)
		default:
			li.kind = 2
			li.syms = symbolsOf(l)
			// path structure: (assert (= reach_bN ...)) / (assert (= e_A_B ...))
			if strings.HasPrefix(l, "(assert (= reach_") || strings.HasPrefix(l, "(assert (= e_") || strings.HasPrefix(l, "(assert (= dfy!") || strings.HasPrefix(l, "(assert (= dfn!") {
				li.pathDef = true
			}
		}
		infos[i] = li
	}
	// symbols shared by many assertions do not indicate relevance
	freq := map[string]int{}
	nAssert := 0
	for _, li := range infos {
		if li.kind != 2 || li.pathDef {
			continue
		}
		nAssert++
		seen := map[string]bool{}
		for _, s := range li.syms {
			if !seen[s] {
				seen[s] = true
				freq[s]++
			}
		}
	}
	common := func(s string) bool {
		return ubiquitous(s) || (nAssert >= 20 && freq[s]*6 > nAssert)
	}
	rel := map[string]bool{}  // symbols that make an assertion relevant
	need := map[string]bool{} // symbols whose declaration/definition must be emitted
	var addNeed func(syms []string)
	addNeed = func(syms []string) {
		for _, s := range syms {
			if builtinSyms[s] || need[s] {
				continue
			}
			need[s] = true
			if di, ok := definer[s]; ok && infos[di].kind == 1 {
				addNeed(infos[di].syms)
			}
		}
	}
	var addSyms func(syms []string)
	addSyms = func(syms []string) {
		for _, s := range syms {
			if builtinSyms[s] || rel[s] {
				continue
			}
			rel[s] = true
			// definitions are followed eagerly (they are macros, not hypotheses)
			if di, ok := definer[s]; ok && infos[di].kind == 1 {
				addSyms(infos[di].syms)
			}
		}
		addNeed(syms)
	}
	addSyms(symbolsOf(guard))
	addSyms(symbolsOf(goal))
	keep := make([]bool, len(lines))
	// path definitions are always kept (declarations only; they do not spread relevance)
	for i, li := range infos {
		if li.pathDef {
			keep[i] = true
			addNeed(li.syms)
		}
	}
	for d := 0; d < depth; d++ {
		var newSyms [][]string
		for i, li := range infos {
			if keep[i] || li.kind != 2 {
				continue
			}
			hit := false
			for _, s := range li.syms {
				if rel[s] && !common(s) {
					hit = true
					break
				}
			}
			if hit {
				keep[i] = true
				newSyms = append(newSyms, li.syms)
			}
		}
		if len(newSyms) == 0 {
			break
		}
		for _, s := range newSyms {
			addSyms(s)
		}
	}
	var out []string
	for i, li := range infos {
		switch li.kind {
		case 0, 1:
			if need[li.defines] || li.defines == "" {
				out = append(out, li.text)
			}
		default:
			if keep[i] {
				out = append(out, li.text)
			}
		}
	}
	return out
}

// pathSyms returns the reach_/e_/dfy!/dfn! symbols of a line.
func pathSyms(l string) []string {
	var out []string
	for _, s := range symbolsOf(l) {
		if strings.HasPrefix(s, "reach_") || strings.HasPrefix(s, "e_") {
			out = append(out, s)
		}
	}
	return out
}

// onPathOnly drops the hypotheses that are guarded by a block or edge that is not an
// ancestor of the obligation's own guard in the (acyclic, passive-form) control flow:
// facts about other paths. Dropping hypotheses is always sound.
func onPathOnly(lines []string, guard string) []string {
	preds := map[string][]string{}
	for _, l := range lines {
		if !strings.HasPrefix(l, "(assert (= reach_") && !strings.HasPrefix(l, "(assert (= e_") {
			continue
		}
		ps := pathSyms(l)
		if len(ps) == 0 {
			continue
		}
		preds[ps[0]] = append(preds[ps[0]], ps[1:]...)
	}
	anc := map[string]bool{}
	var visit func(s string)
	visit = func(s string) {
		if anc[s] {
			return
		}
		anc[s] = true
		for _, p := range preds[s] {
			visit(p)
		}
	}
	gs := pathSyms(guard)
	if len(gs) == 0 {
		return lines
	}
	for _, g := range gs {
		visit(g)
	}
	out := make([]string, 0, len(lines))
	for _, l := range lines {
		if strings.HasPrefix(l, "(assert (=> reach_") || strings.HasPrefix(l, "(assert (=> e_") {
			rest := l[len("(assert (=> "):]
			end := strings.IndexAny(rest, " )")
			if end > 0 && !anc[rest[:end]] {
				continue
			}
		}
		out = append(out, l)
	}
	return out
}

// gcDecls drops the declarations and definitions of symbols that the query never mentions
// (transitively). The prelude accumulates ghost declarations of every function processed
// so far; without this the text of a query - and with it the solver's heuristic choices -
// would depend on which other functions were verified before.
var allocTypeFact = regexp.MustCompile(`^\(assert \(=> \S+ \(= \(ref-ty ref![0-9]+\) [0-9]+\)\)\)$`)

func gcDecls(text string) string {
	lines := strings.Split(text, "\n")
	type decl struct {
		sym  string
		syms []string
		def  bool
	}
	decls := map[int]*decl{}
	bySym := map[string][]int{}
	need := map[string]bool{}
	var work []string
	add := func(syms []string) {
		for _, s := range syms {
			if !need[s] {
				need[s] = true
				work = append(work, s)
			}
		}
	}
	// allocation-type facts are only kept when something else talks about ref-ty
	usesRefTy := false
	for _, l := range lines {
		if strings.Contains(l, "(ref-ty ") && !allocTypeFact.MatchString(l) {
			usesRefTy = true
			break
		}
	}
	if !usesRefTy {
		kept := lines[:0:0]
		for _, l := range lines {
			if !allocTypeFact.MatchString(l) {
				kept = append(kept, l)
			}
		}
		lines = kept
	}
	for i, l := range lines {
		switch {
		case strings.HasPrefix(l, "(declare-fun "), strings.HasPrefix(l, "(declare-const "), strings.HasPrefix(l, "(define-fun "):
			f := strings.Fields(l)
			if len(f) < 2 {
				add(symbolsOf(l))
				continue
			}
			d := &decl{sym: strings.TrimSuffix(f[1], ")"), def: strings.HasPrefix(l, "(define-fun ")}
			if d.def {
				d.syms = symbolsOf(l)
			}
			decls[i] = d
			bySym[d.sym] = append(bySym[d.sym], i)
		default:
			add(symbolsOf(l))
		}
	}
	for len(work) > 0 {
		s := work[len(work)-1]
		work = work[:len(work)-1]
		for _, i := range bySym[s] {
			if decls[i].def {
				add(decls[i].syms)
			}
		}
	}
	var b strings.Builder
	for i, l := range lines {
		if d, ok := decls[i]; ok && !need[d.sym] {
			continue
		}
		b.WriteString(l)
		if i < len(lines)-1 {
			b.WriteByte('\n')
		}
	}
	return b.String()
}
