package main

// Contract blocks: //@ comments in <pkg>/zz_contracts_verif.go (build tag verif).
//
//	//@ func (*MultiOpQueryer).queryBatch
//	//@ props C11 C09
//	//@ returns results, err            (names for unnamed results)
//	//@ requires <expr>
//	//@ ensures[name] <expr>
//	//@ modifies <item>, <item> ...
//	//@ loop 0 invariant[name] <expr>
//	//@ loop 0 modifies <items>
//	//@ fold 0 ... (see fold.go)
//	//@ trusted <reason>               (body not verified; contract assumed)
//	//@ nosafety <kind> <reason>       (do not emit safety obligations of that kind)
//	//@ end
//
// Also at file level:
//
//	//@ define name(a int, b int) int = <expr>
//	//@ axiom name: <expr>             (assumed fact about ghost functions; listed in evidence)
//	//@ lemma name: <expr>             (proved on every run as its own obligation)

import (
	"fmt"
	"go/ast"
	"go/parser"
	"go/token"
	"regexp"
	"strconv"
	"strings"
)

type Clause struct {
	Using []string // names of the hypotheses (clauses) to use when proving this clause
	Name  string
	Text  string // original text
	Expr  ast.Expr
	Props []string
	Line  int
	File  string
}

type LoopSpec struct {
	Entry      []*Clause // assertions checked when the loop is first reached (not maintained)
	Invariants []*Clause
	Steps      []*Clause // per-iteration transition obligations (athead)
	Modifies   []*Clause // nil = everything the body may write (inferred families)
	HasMod     bool
}

type FoldSpec struct {
	Invariants []*Clause // over acc, done(k), item(k)
	ItemVar    string
}

type Contract struct {
	FuncName    string
	Pkg         string
	Props       []string
	Returns     []string
	Requires    []*Clause
	Ensures     []*Clause
	Modifies    []*Clause
	HasMod      bool
	Stores      []*Clause // direct-store frame (own body only)
	HasStores   bool
	Loops       map[int]*LoopSpec
	Folds       map[int]*FoldSpec
	Trusted     string
	NoSafety    map[string]string
	Ghost       []string // ghost statements (unused for now)
	File        string
	Line        int
	Theory      string
	Assumes     []*Clause // assumptions at function entry beyond requires (listed in evidence)
	AssumedPost []*Clause // postconditions assumed at call sites but not proved for the body (boundary; listed in evidence)
	SafetyOff   bool
	Extern      bool
	ParamNames  []string // names for unnamed parameters of interface methods
	CallSites   []*CallSiteSpec
	ModAssumed  bool   // the modifies clause is assumed, not checked against the body
	DeclPkg     string // package whose contract file declares an extern contract
}

type CallSiteSpec struct {
	Callee string
	Clause *Clause
}

type Define struct {
	Name   string
	Params []string
	PTypes []string
	RType  string
	Body   ast.Expr
	Text   string
	Pkg    string
	Opaque bool
}

type Axiom struct {
	Name  string
	Expr  ast.Expr
	Text  string
	Pkg   string
	Lemma bool
	Props []string
}

type ContractSet struct {
	Funcs        map[string]*Contract // key: pkgpath + "::" + relname
	Defines      map[string]*Define   // key: pkgpath + "::" + name
	Axioms       []*Axiom
	NonNil       [][2]string // (package, type expression)
	NonNilFields [][3]string // (package, T.f, kind)
	NonNilBoxed  [][2]string
	Frames       []*FrameSpec
	Guarded      []*FrameSpec
	Commutes     []*FrameSpec
	Errors       []string
}

func (cs *ContractSet) lookup(pkg, rel string) *Contract {
	return cs.Funcs[pkg+"::"+rel]
}

// desugar rewrites  a ==> b  into implies(a, b) and a <==> b into iff(a, b)
// at every nesting level.
func desugar(s string) string {
	// tokenise into top-level segments honoring (), [], {} and string literals
	type seg struct {
		text string
		op   string // "", ",", "==>", "<==>"
	}
	var out strings.Builder
	// recursive descent over groups
	var process func(s string) string
	process = func(s string) string {
		// first recursively process the insides of brackets
		var b strings.Builder
		i := 0
		for i < len(s) {
			c := s[i]
			switch c {
			case '"', '`':
				j := i + 1
				for j < len(s) && s[j] != c {
					if s[j] == '\\' && c == '"' {
						j++
					}
					j++
				}
				if j >= len(s) {
					j = len(s) - 1
				}
				b.WriteString(s[i : j+1])
				i = j + 1
			case '\'':
				j := i + 1
				for j < len(s) && s[j] != '\'' {
					if s[j] == '\\' {
						j++
					}
					j++
				}
				if j >= len(s) {
					j = len(s) - 1
				}
				b.WriteString(s[i : j+1])
				i = j + 1
			case '(', '[', '{':
				close := map[byte]byte{'(': ')', '[': ']', '{': '}'}[c]
				d := 1
				j := i + 1
				for j < len(s) && d > 0 {
					if s[j] == '"' {
						j++
						for j < len(s) && s[j] != '"' {
							if s[j] == '\\' {
								j++
							}
							j++
						}
					} else if s[j] == c {
						d++
					} else if s[j] == close {
						d--
					}
					j++
				}
				inner := s[i+1 : j-1]
				// split inner by top-level commas and process each piece
				pieces := splitTop(inner, ",")
				for k := range pieces {
					pieces[k] = process(pieces[k])
				}
				b.WriteByte(c)
				b.WriteString(strings.Join(pieces, ","))
				b.WriteByte(close)
				i = j
			default:
				b.WriteByte(c)
				i++
			}
		}
		t := b.String()
		// now the current level: <==> binds loosest, then ==> (right assoc)
		if parts := splitTop(t, "<==>"); len(parts) > 1 {
			res := process2(parts[len(parts)-1])
			for k := len(parts) - 2; k >= 0; k-- {
				res = "iff(" + process2(parts[k]) + ", " + res + ")"
			}
			return res
		}
		return process2(t)
	}
	out.WriteString(process(s))
	return out.String()
}

func process2(t string) string {
	parts := splitTop(t, "==>")
	if len(parts) == 1 {
		return t
	}
	res := parts[len(parts)-1]
	for k := len(parts) - 2; k >= 0; k-- {
		res = "implies(" + parts[k] + ", " + res + ")"
	}
	return res
}

// splitTop splits s at occurrences of sep that are outside brackets/strings.
func splitTop(s, sep string) []string {
	var parts []string
	d := 0
	last := 0
	i := 0
	for i < len(s) {
		c := s[i]
		switch {
		case c == '"' || c == '`':
			j := i + 1
			for j < len(s) && s[j] != c {
				if s[j] == '\\' && c == '"' {
					j++
				}
				j++
			}
			i = j + 1
			continue
		case c == '\'':
			j := i + 1
			for j < len(s) && s[j] != '\'' {
				if s[j] == '\\' {
					j++
				}
				j++
			}
			i = j + 1
			continue
		case c == '(' || c == '[' || c == '{':
			d++
		case c == ')' || c == ']' || c == '}':
			d--
		}
		if d == 0 && strings.HasPrefix(s[i:], sep) {
			// do not split "<==>" when looking for "==>"
			if sep == "==>" && i > 0 && s[i-1] == '<' {
				i++
				continue
			}
			parts = append(parts, s[last:i])
			i += len(sep)
			last = i
			continue
		}
		i++
	}
	parts = append(parts, s[last:])
	return parts
}

func parseSpecExpr(text string) (ast.Expr, error) {
	d := desugar(text)
	e, err := parser.ParseExpr(d)
	if err != nil {
		return nil, fmt.Errorf("%v in %q (desugared %q)", err, text, d)
	}
	return e, nil
}

// parseContractFile reads all //@ lines of one file.
func (cs *ContractSet) parseFile(fset *token.FileSet, f *ast.File, pkgPath, fileName string) {
	var cur *Contract
	finish := func() {
		if cur != nil {
			propagateProps(cur)
			// an extern (assumed) contract and a func (verified) contract for the same function: whichever were read
			// last would win, and an extern one would silently switch the verification of the body off
			if old, ok := cs.Funcs[cur.Pkg+"::"+cur.FuncName]; ok && old.Extern != cur.Extern {
				cs.Errors = append(cs.Errors, fmt.Sprintf("%s:%d: %s.%s has both an extern (assumed) contract and a func (verified) contract: the extern one would shadow the verification of the body", fileName, cur.Line, cur.Pkg, cur.FuncName))
			}
			cs.Funcs[cur.Pkg+"::"+cur.FuncName] = cur
			cur = nil
		}
	}
	errf := func(line int, format string, args ...interface{}) {
		cs.Errors = append(cs.Errors, fmt.Sprintf("%s:%d: %s", fileName, line, fmt.Sprintf(format, args...)))
	}
	for _, cg := range f.Comments {
		var lines []struct {
			text string
			line int
		}
		for _, c := range cg.List {
			t := c.Text
			var body string
			switch {
			case strings.HasPrefix(t, "//@"):
				body = strings.TrimSpace(t[3:])
			case strings.HasPrefix(t, "// @"):
				body = strings.TrimSpace(t[4:])
			default:
				continue
			}
			ln := fset.Position(c.Pos()).Line
			// continuation lines start with "\" marker: "//@ \ more"
			if strings.HasPrefix(body, "\\") && len(lines) > 0 {
				lines[len(lines)-1].text += " " + strings.TrimSpace(body[1:])
				continue
			}
			lines = append(lines, struct {
				text string
				line int
			}{body, ln})
		}
		for _, l := range lines {
			body := l.text
			if body == "" {
				continue
			}
			word, rest := cutWord(body)
			if i := strings.Index(word, "["); i > 0 && strings.HasSuffix(word, "]") {
				rest = word[i:] + " " + rest
				word = word[:i]
			}
			mkClause := func(rest string) *Clause {
				name := ""
				if strings.HasPrefix(rest, "[") {
					if i := strings.Index(rest, "]"); i > 0 {
						name = rest[1:i]
						rest = strings.TrimSpace(rest[i+1:])
					}
				}
				var props, using []string
				// trailing "@using a,b" and "@props C01,C02" (in this order)
				if i := strings.LastIndex(rest, "@props "); i >= 0 {
					props = strings.FieldsFunc(rest[i+7:], func(r rune) bool { return r == ',' || r == ' ' })
					rest = strings.TrimSpace(rest[:i])
				}
				if i := strings.LastIndex(rest, "@using "); i >= 0 {
					using = strings.FieldsFunc(rest[i+7:], func(r rune) bool { return r == ',' || r == ' ' })
					rest = strings.TrimSpace(rest[:i])
				}
				e, err := parseSpecExpr(rest)
				if err != nil {
					errf(l.line, "%v", err)
					return nil
				}
				for _, m := range watchedRe.FindAllStringSubmatch(rest, -1) {
					watchedCallees[m[2]] = true
				}
				return &Clause{Name: name, Text: rest, Expr: e, Line: l.line, File: fileName, Props: props, Using: using}
			}
			switch word {
			case "func":
				finish()
				cur = &Contract{FuncName: rest, Pkg: pkgPath, Loops: map[int]*LoopSpec{}, Folds: map[int]*FoldSpec{}, NoSafety: map[string]string{}, File: fileName, Line: l.line}
			case "extern":
				// extern <import path> <function>: assumed contract of a library function
				finish()
				ep, en := cutWord(rest)
				cur = &Contract{FuncName: en, Pkg: ep, Loops: map[int]*LoopSpec{}, Folds: map[int]*FoldSpec{}, NoSafety: map[string]string{}, File: fileName, Line: l.line, Trusted: "library function (assumed contract)", Extern: true, DeclPkg: pkgPath}
			case "end":
				finish()
			case "define", "opaque":
				// name(a int, b int) int = expr
				d, err := parseDefine(rest)
				if err != nil {
					errf(l.line, "%v", err)
					continue
				}
				d.Pkg = pkgPath
				d.Opaque = word == "opaque"
				cs.Defines[pkgPath+"::"+d.Name] = d
			case "nonnil-elems":
				// element type invariant: slices of this pointer type never hold nil in bounds
				cs.NonNil = append(cs.NonNil, [2]string{pkgPath, strings.TrimSpace(rest)})
			case "commute":
				// commute <func> loop <n>: <justification>   (annotation for a flagged map-range loop)
				i := strings.Index(rest, ":")
				w := strings.Fields(rest[:max0(i)])
				if i < 0 || len(w) < 3 || w[len(w)-2] != "loop" {
					errf(l.line, "commute: want <func> loop <n>: <justification>")
					continue
				}
				fn := strings.Join(w[:len(w)-2], " ")
				cs.Commutes = append(cs.Commutes, &FrameSpec{Kind: word, Pkg: pkgPath, Text: strings.TrimSpace(rest[i+1:]), Fields: []string{shortPkgName(pkgPath) + "." + fn, w[len(w)-1]}, Line: l.line, File: fileName})
			case "guarded":
				// guarded T.f by m : map field f of T may only be read with mutex field m held (R or W), written with W
				var props []string
				t := rest
				if i := strings.LastIndex(t, "@props "); i >= 0 {
					props = strings.FieldsFunc(t[i+7:], func(r rune) bool { return r == ',' || r == ' ' })
					t = strings.TrimSpace(t[:i])
				}
				cs.Guarded = append(cs.Guarded, &FrameSpec{Kind: word, Pkg: pkgPath, Text: t, Props: props, Line: l.line, File: fileName})
			case "reads-covered", "immutable-outside", "decodes":
				var props []string
				t := rest
				if i := strings.LastIndex(t, "@props "); i >= 0 {
					props = strings.FieldsFunc(t[i+7:], func(r rune) bool { return r == ',' || r == ' ' })
					t = strings.TrimSpace(t[:i])
				}
				cs.Frames = append(cs.Frames, &FrameSpec{Kind: word, Pkg: pkgPath, Text: t, Props: props, Line: l.line, File: fileName})
			case "assume-nonnil-boxed":
				// data assumption: interface values never hold a nil value of this (map/pointer) type
				cs.NonNilBoxed = append(cs.NonNilBoxed, [2]string{pkgPath, strings.TrimSpace(rest)})
			case "assume-nonnil-elems":
				cs.NonNil = append(cs.NonNil, [2]string{pkgPath, strings.TrimSpace(rest)})
			case "nonnil-field", "assume-nonnil-field":
				// field invariant: T.f is never nil (checked at stores and allocations unless assumed)
				cs.NonNilFields = append(cs.NonNilFields, [3]string{pkgPath, strings.TrimSpace(rest), word})
			case "axiom", "lemma":
				i := strings.Index(rest, ":")
				if i < 0 {
					errf(l.line, "axiom needs a name:")
					continue
				}
				name := strings.TrimSpace(rest[:i])
				body := strings.TrimSpace(rest[i+1:])
				var props []string
				if j := strings.LastIndex(body, "@props "); j >= 0 {
					props = strings.FieldsFunc(body[j+7:], func(r rune) bool { return r == ',' || r == ' ' })
					body = strings.TrimSpace(body[:j])
				}
				e, err := parseSpecExpr(body)
				if err != nil {
					errf(l.line, "%v", err)
					continue
				}
				cs.Axioms = append(cs.Axioms, &Axiom{Name: name, Expr: e, Text: body, Pkg: pkgPath, Lemma: word == "lemma", Props: props})
			default:
				if cur == nil {
					errf(l.line, "clause %q outside a func block", word)
					continue
				}
				switch word {
				case "props":
					cur.Props = strings.Fields(rest)
				case "params":
					for _, n := range strings.Split(rest, ",") {
						cur.ParamNames = append(cur.ParamNames, strings.TrimSpace(n))
					}
				case "returns":
					for _, n := range strings.Split(rest, ",") {
						cur.Returns = append(cur.Returns, strings.TrimSpace(n))
					}
				case "requires":
					if c := mkClause(rest); c != nil {
						cur.Requires = append(cur.Requires, c)
					}
				case "assumes":
					if c := mkClause(rest); c != nil {
						cur.Assumes = append(cur.Assumes, c)
					}
				case "ensures":
					if c := mkClause(rest); c != nil {
						cur.Ensures = append(cur.Ensures, c)
					}
				case "assumes-post":
					if c := mkClause(rest); c != nil {
						cur.AssumedPost = append(cur.AssumedPost, c)
					}
				case "modifies", "modifies-assumed":
					cur.HasMod = true
					if word == "modifies-assumed" {
						cur.ModAssumed = true
					}
					for _, it := range splitTop(rest, ",") {
						it = strings.TrimSpace(it)
						if it == "" || it == "nothing" {
							continue
						}
						cur.Modifies = append(cur.Modifies, &Clause{Text: it, Line: l.line, File: fileName})
					}
				case "stores":
					// stores <items>: a frame for the store instructions of this function's own body only
					// (what its callees write is governed by modifies)
					for _, it := range splitTop(rest, ",") {
						it = strings.TrimSpace(it)
						if it == "" || it == "nothing" {
							continue
						}
						cur.Stores = append(cur.Stores, &Clause{Text: it, Line: l.line, File: fileName})
					}
					cur.HasStores = true
				case "callsite":
					// callsite <callee name> requires[name] <expr>: asserted at every call of that callee in this function
					cn, r2 := cutWord(rest)
					kw, r3 := cutWord(r2)
					if i := strings.Index(kw, "["); i > 0 {
						r3 = kw[i:] + " " + r3
						kw = kw[:i]
					}
					if kw != "requires" {
						errf(l.line, "callsite: want <callee> requires <expr>")
						continue
					}
					if c := mkClause(r3); c != nil {
						cur.CallSites = append(cur.CallSites, &CallSiteSpec{Callee: cn, Clause: c})
					}
				case "trusted":
					cur.Trusted = rest
					if cur.Trusted == "" {
						cur.Trusted = "trusted"
					}
				case "nosafety":
					k, why := cutWord(rest)
					cur.NoSafety[k] = why
				case "theory":
					cur.Theory = rest
				case "loop", "fold":
					nstr, rest2 := cutWord(rest)
					n, err := strconv.Atoi(nstr)
					if err != nil {
						errf(l.line, "%s needs an ordinal", word)
						continue
					}
					kind, rest3 := cutWord(rest2)
					// allow invariant[name]
					if i := strings.Index(kind, "["); i > 0 {
						rest3 = kind[i:] + " " + rest3
						kind = kind[:i]
					}
					if word == "loop" {
						ls := cur.Loops[n]
						if ls == nil {
							ls = &LoopSpec{}
							cur.Loops[n] = ls
						}
						switch kind {
						case "invariant":
							if c := mkClause(rest3); c != nil {
								ls.Invariants = append(ls.Invariants, c)
							}
						case "entry":
							if c := mkClause(rest3); c != nil {
								ls.Entry = append(ls.Entry, c)
							}
						case "step":
							// a two-state obligation per iteration (athead(e) is the value at the head of the iteration);
							// proved at every back edge, never assumed
							if c := mkClause(rest3); c != nil {
								ls.Steps = append(ls.Steps, c)
							}
						case "modifies":
							ls.HasMod = true
							for _, it := range splitTop(rest3, ",") {
								it = strings.TrimSpace(it)
								if it == "" || it == "nothing" {
									continue
								}
								ls.Modifies = append(ls.Modifies, &Clause{Text: it, Line: l.line, File: fileName})
							}
						default:
							errf(l.line, "unknown loop clause %q", kind)
						}
					} else {
						fs := cur.Folds[n]
						if fs == nil {
							fs = &FoldSpec{}
							cur.Folds[n] = fs
						}
						switch kind {
						case "invariant":
							if c := mkClause(rest3); c != nil {
								fs.Invariants = append(fs.Invariants, c)
							}
						default:
							errf(l.line, "unknown fold clause %q", kind)
						}
					}
				default:
					errf(l.line, "unknown clause %q", word)
				}
			}
		}
	}
	finish()
}

func max0(i int) int {
	if i < 0 {
		return 0
	}
	return i
}

func shortPkgName(p string) string {
	const mod = "github.com/buildbuildio/pebbles"
	if p == mod {
		return "pebbles"
	}
	if strings.HasPrefix(p, mod+"/") {
		return p[len(mod)+1:]
	}
	return p
}

func cutWord(s string) (string, string) {
	s = strings.TrimSpace(s)
	i := strings.IndexAny(s, " \t")
	if i < 0 {
		return s, ""
	}
	return s[:i], strings.TrimSpace(s[i+1:])
}

func parseDefine(s string) (*Define, error) {
	eqi := -1
	d := 0
	for i := 0; i < len(s); i++ {
		switch s[i] {
		case '(':
			d++
		case ')':
			d--
		case '=':
			if d == 0 && (i+1 >= len(s) || s[i+1] != '=') && (i == 0 || (s[i-1] != '=' && s[i-1] != '!' && s[i-1] != '<' && s[i-1] != '>')) {
				eqi = i
			}
		}
		if eqi >= 0 {
			break
		}
	}
	if eqi < 0 {
		return nil, fmt.Errorf("define: missing '=' in %q", s)
	}
	head := strings.TrimSpace(s[:eqi])
	bodyText := strings.TrimSpace(s[eqi+1:])
	lp := strings.Index(head, "(")
	rp := strings.LastIndex(head, ")")
	if lp < 0 || rp < lp {
		return nil, fmt.Errorf("define: bad head %q", head)
	}
	df := &Define{Name: strings.TrimSpace(head[:lp]), RType: strings.TrimSpace(head[rp+1:]), Text: bodyText}
	for _, p := range splitTop(head[lp+1:rp], ",") {
		p = strings.TrimSpace(p)
		if p == "" {
			continue
		}
		n, t := cutWord(p)
		df.Params = append(df.Params, n)
		df.PTypes = append(df.PTypes, t)
	}
	e, err := parseSpecExpr(bodyText)
	if err != nil {
		return nil, err
	}
	df.Body = e
	return df, nil
}

// callees named in lastresult(F) / lastarg(F, i) / atlast(F, e): the engine keeps a ghost record of
// their most recent call on every path
var watchedRe = regexp.MustCompile(`(lastresult|lastarg|atlast|lastcalled)\(\s*([A-Za-z_][A-Za-z0-9_]*)`)
var watchedCallees = map[string]bool{}

// propagateProps: a clause is only as claimed as the clauses it is proved from. When a clause that is
// claimed for properties P names its hypotheses (@using a, b), the clauses called a and b of the same
// contract are claimed for P as well (otherwise a change that breaks the invariant would be reported under
// the function's default properties only, and the check of P would stay silent). Transitive.
func propagateProps(c *Contract) {
	var all []*Clause
	all = append(all, c.Ensures...)
	all = append(all, c.Requires...)
	for _, l := range c.Loops {
		all = append(all, l.Entry...)
		all = append(all, l.Invariants...)
		all = append(all, l.Steps...)
	}
	for _, f := range c.Folds {
		all = append(all, f.Invariants...)
	}
	for _, cs := range c.CallSites {
		all = append(all, cs.Clause)
	}
	union := func(a, b []string) ([]string, bool) {
		changed := false
		for _, x := range b {
			if !hasProp(a, x) {
				a = append(a, x)
				changed = true
			}
		}
		return a, changed
	}
	for round := 0; round < 8; round++ {
		changed := false
		for _, cl := range all {
			if cl == nil || len(cl.Props) == 0 || len(cl.Using) == 0 {
				continue
			}
			for _, d := range all {
				if d == nil || d == cl || d.Name == "" {
					continue
				}
				used := false
				for _, u := range cl.Using {
					if u == d.Name {
						used = true
					}
				}
				if !used {
					continue
				}
				base := d.Props
				if len(base) == 0 {
					base = append([]string{}, c.Props...)
				}
				nb, ch := union(base, cl.Props)
				if ch || len(d.Props) == 0 {
					d.Props = nb
					changed = changed || ch
				}
			}
		}
		if !changed {
			break
		}
	}
}
