#!/usr/bin/env python3
# Regenerates MANIFEST.json from the table below (kept next to the checks so that the
# manifest never drifts from what is built).
import json, subprocess

HOOK_COMMITS = subprocess.run(['git','-C','/repo','log','--format=%h %s'],capture_output=True,text=True).stdout.strip().split('\n')
hooks = [l.split()[0] for l in HOOK_COMMITS if 'verif hook' in l]

CLAIMED = {
 'C11': dict(
   text="Deductive proof, for all N, m>=1 and every completion order of the fan-out, of the functional contract of MultiOpQueryer.Query, its two closures, queryBatch and fetch: N results, result i answers request i, error => no partial result, chunk size <= m (slice bounds), over VCs generated from go/ssa of the working tree and discharged by z3/cvc5. The goroutine helper itself is an assumed fold contract (C20 n/a).",
   note="Assumed: AsyncMapReduce fold contract; protocol boundary Ans (reply element j answers request element j) at fetch/fetchFile; encoding/json, net/http; mathematical integers; generator + solvers.",
   ref="DESIGN.md §5 C11", technique="contract-based deductive verification (WP/symbolic execution over go/ssa, fold invariant, z3+cvc5)"),
}

NA = {
}
ALL = ['C%02d'%i for i in range(1,21)]
for p in ALL:
    if p not in CLAIMED and p not in NA:
        NA[p] = "not built yet in this session (see DESIGN.md §1 for the planned contracts); no other technique is substituted"
NA['C17'] = "quantifies over event histories and schedules across channels, select and websocket goroutines: outside what per-call contracts can state (DESIGN.md §6)"
NA['C18'] = "every clause is about interleavings (teardown races, close vs send); contracts quantify over inputs of one sequential call (DESIGN.md §6)"
NA['C20'] = "the helper is the concurrency (n+2 goroutines, three channels): no sequential residue to put under contract; its behaviour is the assumed fold contract used by C06/C08/C10/C11/C12 (DESIGN.md §6)"

m = {
 "version": 1,
 "setup_cmd": "cd /verif/gocv && GOFLAGS=-mod=mod GOPROXY=off GOSUMDB=off GOTOOLCHAIN=local go build -o /verif/bin/gocv .",
 "hooks": {
   "guard": "verif",
   "enable": "go build -tags verif (the checks load /repo with -tags=verif; the tag only adds <pkg>/zz_contracts_verif.go files holding //@ contract comments and ghost declarations)",
   "baseline_off_cmd": "cd /repo && go test -vet=off -count=1 ./...",
   "source_commits": hooks,
   "add_only": True,
 },
 "engines": [{"name":"gocv","path":"/verif/gocv","serves_properties":sorted(CLAIMED),"kind_free_text":"verification-condition generator over go/ssa (NaiveForm) with contracts in //@ comments; obligations discharged by z3 5.1 / z3 4.8.12 / cvc5 1.0.3"}],
 "checks": [],
 "not_applicable": [{"property_id":p,"reason":NA[p]} for p in sorted(NA)],
 "notes": "See DESIGN.md. known_findings.json lists genuine defects (open or fixed); obligations.lock.json lists obligations not claimed.",
}
for p in sorted(CLAIMED):
    c = CLAIMED[p]
    m["checks"].append({
      "property_id": p,
      "quick_cmd": "./check %s quick" % p,
      "thorough_cmd": "./check %s thorough" % p,
      "evidence_file": "/verif/evidence/%s.json" % p,
      "replay_cmd_template": "cat {path}",
      "engine": "gocv",
      "level_claimed": {"category": c.get('category','proof'), "text": c['text'], "design_ref": c['ref']},
      "level_note": c['note'],
      "technique": c['technique'],
    })
json.dump(m, open('/verif/MANIFEST.json','w'), indent=1)
print("claimed:", sorted(CLAIMED), "n/a:", sorted(NA))
