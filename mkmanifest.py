#!/usr/bin/env python3
# Regenerates MANIFEST.json from the table below (kept next to the checks so that the
# manifest never drifts from what is built).
import json, subprocess

HOOK_COMMITS = subprocess.run(['git','-C','/repo','log','--format=%h %s'],capture_output=True,text=True).stdout.strip().split('\n')
hooks = [l.split()[0] for l in HOOK_COMMITS if 'verif hook' in l]

CLAIMED = {
 'C01': dict(
   text="Kernel obligations only, each proved for all inputs of the function it sits on: (1) the insertion-point codec - CachedPointDataExtractor.Extract inverts the `path#id` / `path:index` encoding produced by the executor (string theory; the id is everything after the first '#'); (2) the stitching kernels FindInsertionPoints (row-shape invariants, all indices in range), ExtractValueModifyingSource, mergeMaps / mergeSlices / getLeftEntityPosition and DepthExecutorManager.merge are panic-free for arbitrary decoded JSON and keep the stated shapes; (3) planner.extractSelectionSet folds a field owned by another service into an existing child step only when that step has the same URL and the comparison of insertion points that allowed it returned true (obligation on the folding call, over a ghost record of the comparison call); (4) selectionSetToFieldsRepresentation keeps every response key (alias, or name without alias) the client selected when an interface selection is rewritten per implementation; (5) the name predicates of package common. NOT decided: equality of the stitched `data` with what a single server would return (needs GraphQL execution semantics as a specification), the planner's split as a whole, formatting, scrubbing (see C13 finding B19).",
   note="Assumed: strconv.ParseInt / strings.SplitN library models; decoded JSON values are well-formed (jsonval); extractSelectionSet's callees without contract are abstracted by their inferred write sets, so only what is stated about the folding decision is proved; the routing table is well-formed (proved in C04) and schema maps hold non-nil definitions.",
   ref="DESIGN.md §0.3 C01", technique="contract-based deductive verification (codec postconditions in the theory of strings, loop invariants over row slices, call-site obligation with ghost call record, z3+cvc5)"),
 'C15': dict(
   text="One kernel only: parseTypeRef decodes the __Type{kind name ofType} chain of an introspection answer back into the type reference it encodes, for every nesting depth of list / non-null wrappers (inductive proof through the function's own contract: TString(result) == RefString(response) for every spec-compliant chain). NOT decided: parseType, parseInputField, parseArgList, default values, directives, deprecations, descriptions, possible types, the JSON decoding of the answer and the final format + LoadSchema step - that is, most of the property.",
   note="Assumed: the encoding itself (RefString, WfRef) is axiomatised from the GraphQL specification; the four ast.Type constructors of gqlparser and (*ast.Type).String as extern contracts; the chain objects are not mutated during the call.",
   ref="DESIGN.md §0.3 C15", technique="contract-based deductive verification (recursive function against an axiomatised specification function, strings theory, z3+cvc5)"),
 'C03': dict(
   text="Deductive proof of the union shape of the pairwise merge where it is a per-call property: mergeTypes (no error) yields exactly keys(a) ∪ non-builtin keys(b), all definitions non-nil; mergeRootObjects keeps every root field of the schema being merged in (prefix, by identity) and every non-builtin root field of the accumulated side (by name) - which is where the order-dependent loss of Query.node was found and fixed; mergeCustomObjectFields keeps every field name of the new side and, unless the result is a complete copy, of the accumulated side (where the loss of a one-sided `id` field was found and fixed); mergeCustomObjects keeps kind and name, every interface name, union member, enum value name and applied-directive name of both sides (lo.Uniq / lo.UniqBy models, the key of UniqBy taken from the proved contract of the key closure); mergeDirectives keeps every directive definition of every service and adds none; the routing side is C04. The lifting of these per-definition facts through mergeTypes to whole schemas, the Implements / PossibleTypes maps and the final FormatSchema + LoadSchema round trip are not under contract.",
   note="Assumed: modifies clauses marked assumed (the merge helpers do not change the visible contents of the input schemas); gqlparser ForName model; AST non-nil invariants.",
   ref="DESIGN.md §5 C03", technique="contract-based deductive verification (set-shaped postconditions over maps and field lists, z3+cvc5)"),
 'C05': dict(
   text="Deductive proof of conflict => error as postconditions of the pairwise merge, for arbitrary schemas: a name used for different kinds (mergeTypes), the same root field declared by both sides other than the Relay entry point (mergeRootObjects), with the node-entry-point definition taken from the property statement (isNodeField). 'A shared field with a different type or different arguments (name, type, default) is rejected' is a postcondition of mergeCustomObjectFields, proved with loop invariants after the defect it exposed (B15) was repaired; isSameFieldSignature is proved equal to the signature predicate of the contract. Node-implementation mismatch, union member differences, the 'neither identical nor disjoint' rule and order independence of the fold (B16, see DESIGN) are not decided.",
   note="Assumed: (*ast.Type).String / Name and (*ast.Value).String as ghost functions; field names of one type are unique (gqlparser's schema validation); modifies clauses marked assumed; panics inside gqlparser are out of scope.",
   ref="DESIGN.md §5 C05", technique="contract-based deductive verification (error-path postconditions with loop invariants over map iteration, z3+cvc5)"),
 'C04': dict(
   text="Deductive proof of the functional contracts of the routing table: TypeURLMap.Set/Get/SetTypeIsImplementsNode/GetTypeIsImplementsNode (exact effect plus frame over all other (type, field) pairs and flags), isNodeField against the property's definition of the Relay entry point (name node, one argument id: ID!, nullable Node), SetFromSchema (every non-builtin, non-id, non-entry-point field of every non-builtin object of the schema is routed to that service; types not declared as objects by the schema are untouched; every route is either unchanged or now points to this service; IsImplementsNode iff some processed schema lists Node) and the fold in ExtendMergerFunc.Merge (every declared field of every input has a route; every route names some input's URL), for arbitrary schemas and any number of services. 'Exactly the one service' for root fields rests on C05's overlap rejection in mergeRootObjects, and mergeTypes is proved never to send Query, Mutation or Subscription through the merge of shared value types (call-site obligation).",
   note="Assumed: mergeTypes and the schema re-load do not modify the input schemas (modifies-assumed); AST element/field non-nil invariants (validator post-condition); (*ast.Type).Name as ghost TName; map iteration models every order.",
   ref="DESIGN.md §5 C04", technique="contract-based deductive verification (quantified map-of-map invariants, @using hypothesis selection, z3+cvc5)"),
 'C14': dict(
   text="Decides the three obligations of the decomposition in DESIGN §5: (a) reads-frame: every access path SequentialPlanner.Plan reads from the planning context (transitively through the repo) is also read by CachedPlanner.hash, Schema and TypeURLMap excepted; (b) modifies-frame: no function outside package planner stores into a QueryPlan / QueryPlanStep it did not allocate; (c) lock discipline: the two cache maps are read only with the RWMutex held (R or W) and written only with W held, every lock is released on every return path (ghost lock state, path-sensitive defers), plus no-panic obligations and the cached-plan non-nil refinement of Planner.Plan. Interleavings of concurrent requests and the induction over histories are not mechanised.",
   note="Assumed: SHA-1 and the selection-set formatter are injective on what they read; the frame analyses are conservative syntactic dataflows over go/ssa (not SMT); the inner planner does not share the cache; one sequential thread's view of the mutex.",
   ref="DESIGN.md §5 C14", technique="contract-based deductive verification (reads/modifies frame obligations by SSA dataflow, ghost lock state obligations by z3)"),
 'C06': dict(
   text="Deductive proof of the links of the chain that are per-call properties: (1) the operation keyword of a step's query string is the client's operation type exactly for root steps (empty insertion point) and `query` for follow-up steps, pinned at the point where the query string is formatted (SetComputedValues, formatter contracts); (2) executeRequests issues at most one Queryer.Query per service group, a request that is not a de-duplicable follow-up lookup (in particular every root request) gets the private key itoa(index) - never a shared `!`-key - and is recorded exactly in its own entry; (3) the manager's depth loop never runs a depth after a failed one (loop invariant: the requests at hand would be sent a second time); MultiOpQueryer.Query partitions its inputs into disjoint chunks that cover them (C11 proof), so each request is in exactly one HTTP call. (4) SetComputedValues stores a formatter only into its own step (direct-store frame), so the root's operation keyword and name cannot be handed to a follow-up step. Routing of root fields to their owner (routeSelectionSet) and 'child steps have non-empty insertion points' (extractSelectionSet) are not under contract; plan caching is covered by C14.",
   note="Assumed: AsyncMapReduce fold contract; planner functions below SetComputedValues (routeSelectionSet, extractSelectionSet) are not verified; lo.PartitionBy groups by URL; modifies clauses marked assumed in the evidence.",
   ref="DESIGN.md §5 C06", technique="contract-based deductive verification (loop-entry assertions on formatter state, ghost call counter, key-shape postconditions, z3+cvc5)"),
 'C13': dict(
   text="One order-independence obligation per `range` over a map in non-test code (43 loops, found from the SSA Range instructions), discharged by an iteration contract checked on the real SSA: the body writes only iteration-local state, the footprint of its own key (the entry's value, the outer map/slice at the loop key), or commutative accumulators (set insert, delete, one-constant flags, counters; `append` bags as multisets); early exits must be error exits or be shown unique. GetSameIndexes' early return is proved unique deductively (postcondition `determined` for every iteration order under the injectivity invariant of executeRequests); SetFromSchema by its order-free functional contract. Loops the classifier cannot justify carry an explicit annotation (listed as assumption) or are findings. Goroutine interleavings are not decided.",
   note="Assumed: distinct map entries do not share the objects reached through their values; bag accumulators are consumed as multisets; the annotated loops (see evidence map_range_loops[].annotation); ScrubFields.Clean across paths is undecided (not claimed).",
   ref="DESIGN.md §5 C13", technique="contract-based verification: iteration contracts (parallel-loop footprint argument) by SSA dataflow, uniqueness of early exits by SMT (z3)"),
 'C07': dict(
   text="Deductive proof of no-panic (nil, bounds, type assertion, nil-map, division) obligations generated for every instruction of the request-decoding path (Parse, parseRequest, injectFile, IsBatchMode), the handler (queryHandler, its per-operation closure and reducer, Emit, emitError, getQueryers, parseIntrospectionQuery), error formatting, and everything that runs inside the per-operation closure below it: the introspection resolvers (for arbitrary selection sets and client variables), every function of the planner (sequential planner, selection-set sanitising, scrub bookkeeping, variable collection - safety-only contracts; this sweep found the crash on an interface without implementations, B23), the sub-query formatter and the upload helpers of the queryer, for arbitrary request bodies / multipart maps and validated operations; plus ghost-state postconditions: exactly one status line per request, 422 iff Parse fails, 200 otherwise, invalid operations answered with data:null and >=1 error. Termination (hangs) and panics inside gqlparser / encoding/json / net/http are not decided.",
   note="Assumed: library contracts listed in the evidence (LoadQuery, FormFile, json.Unmarshal, strings.*), callbacks (QueryerFactory) do not modify gateway state, modifies clauses marked assumed; the planner, formatter and introspection functions are verified for safety only, under the assumptions that a validated document has resolved fragments / definitions / object definitions and that schema maps hold non-nil values (listed in the evidence); the executor below Executor.Execute is covered by C09.",
   ref="DESIGN.md §5 C07", technique="contract-based deductive verification (auto-generated safety obligations + ghost status contracts over go/ssa, z3+cvc5)"),
 'C08': dict(
   text="Deductive proof that every return path of the per-operation closure yields a non-nil result carrying its own index and no error, that the reducer places by index and keeps the other slots (frame), and via the fold rule that N operations yield N filled slots with slot i holding operation i's result, for every completion order; Parse's single/batch shape establishes Emit's precondition. Independence is proved as a frame: the closure modifies only fresh objects, JSON payload maps, the plan cache and the ghost call counter. Interleavings of the concurrent closures are not decided (fold rule assumes the helper's contract).",
   note="Assumed: AsyncMapReduce fold contract (C20 n/a); Planner/Executor implementations refine their interface contracts as far as verified (refinement obligations are part of the check); modifies clauses marked assumed in the evidence.",
   ref="DESIGN.md §5 C08", technique="contract-based deductive verification (fold invariant over a set of completed items, frame conditions, z3+cvc5)"),
 'C09': dict(
   text="Deductive proof of no-panic obligations (bounds, nil, nil-map store, type assertion, uncomparable interface comparison, explicit panic) for every instruction of the downstream-response path: fetch/queryBatch/Query, executeRequests and its bookkeeping, response parsing, FindInsertionPoints/FindSelection/extractID, the depth manager and merge (ExtractValueModifyingSource, mergeMaps, mergeSlices, getLeftEntityPosition, mergeOrRewriteMap), FormatError/ExtendErrorList, for arbitrary JSON payloads; plus the signalling chain as postconditions: wrong-length reply, transport error, undecodable body or `errors` => queryBatch error => executeRequests => depth executor => manager returns a non-empty error list and no data => the per-operation result never has data:null without errors. `data:null` without errors for a root step and 'no fabricated value' are not decided; hangs are not decided.",
   note="Assumed: payload values are JSON values (no typed-nil maps inside interfaces, ids are JSON kinds); insertion points emitted by FindInsertionPoints carry non-negative indexes (ghost PointIndexOK, not proved); AsyncMapReduce fold contract; depth map contiguity after NewDepthExecutorManager; modifies clauses marked assumed; library models listed in the evidence.",
   ref="DESIGN.md §5 C09", technique="contract-based deductive verification (safety obligations for all instructions + error-signalling postcondition chain, z3+cvc5)"),
 'C12': dict(
   text="Deductive proof that executeRequests performs at most one Queryer.Query call (ghost call counter) and none for an empty group, that its de-duplication bookkeeping is a well-formed index map (non-aliased entries, injective target slots within the batch, every request index recorded in exactly the bookkeeping or the skip set) and that every request of the group receives a non-nil response bound to itself (fan-out postcondition) for every number of requests; DepthExecutor.Execute's per-service closure inherits the one-call bound, and the key that groups a level's requests is proved to be the service URL and nothing else. The bound 'calls per service <= plan levels' across manager iterations relies on the manager loop calling de.Execute once per depth (structural) and on the fold contract.",
   note="Assumed: AsyncMapReduce fold contract; lo.PartitionBy makes one group per distinct key; Queryer implementations refine the interface contract (MultiOpQueryer is checked); Sprintf is an injective uninterpreted function of its arguments.",
   ref="DESIGN.md §5 C12", technique="contract-based deductive verification (ghost call counter, quantified map invariants with goal-directed instantiation, z3+cvc5)"),
 'C10': dict(
   text="Deductive proof that (a) on every path of the per-operation closure where the query does not validate, names an unknown operation or is ambiguous, the ghost downstream-call counter is unchanged and the result has data:null and >=1 error; (b) FormatError and ExtendErrorList preserve *Error values by pointer identity (hence message, extensions, path) for single errors and error lists, for all inputs. (c) queryBatch ends the batch with a reply's errors whenever that reply carries any, whatever else it carries (loop invariant). The passage of the error list from queryBatch up to the closure is covered only by these kernels (not a full chain).",
   note="Assumed: LoadQuery / OperationList.ForName library contracts (ghost ValidQuery, LoadedDoc, OpNamed); QueryCalls ghost counts Queryer.Query invocations (Subscribe and the queryer factory are outside); no typed-nil *gqlerror.Error values.",
   ref="DESIGN.md §5 C10", technique="contract-based deductive verification (ghost effect counter + frame, functional contracts with pointer identity, z3+cvc5)"),
 'C11': dict(
   text="Deductive proof, for all N, m>=1 and every completion order of the fan-out, of the functional contract of MultiOpQueryer.Query, its two closures, queryBatch and fetch: N results, result i answers request i, error => no partial result, chunk size <= m (slice bounds), over VCs generated from go/ssa of the working tree and discharged by z3/cvc5. The goroutine helper itself is an assumed fold contract (C20 n/a).",
   note="Assumed: AsyncMapReduce fold contract; protocol boundary Ans (reply element j answers request element j) at fetch/fetchFile; encoding/json, net/http; mathematical integers; generator + solvers.",
   ref="DESIGN.md §5 C11", technique="contract-based deductive verification (WP/symbolic execution over go/ssa, fold invariant, z3+cvc5)"),
}

NA = {
}
ALL = ['C%02d'%i for i in range(1,21)]
for p in ALL:
    if p not in CLAIMED and p not in NA:
        NA[p] = "not built yet in this session (see DESIGN.md §1 for the planned contracts); no other technique is substituted"
NA['C17'] = "quantifies over event histories and schedules across channels, select and websocket goroutines: outside what per-call contracts can state (DESIGN.md §6)"
NA['C18'] = "every clause is about interleavings (teardown races, close vs send); contracts quantify over inputs of one sequential call (DESIGN.md §6)"
NA['C20'] = "the helper is the concurrency (n+2 goroutines, three channels): no sequential residue to put under contract; its behaviour is the assumed fold contract used by C06/C08/C10/C11/C12 (DESIGN.md §6)"

m = {
 "version": 1,
 "setup_cmd": "cd /verif/gocv && GOFLAGS=-mod=mod GOPROXY=off GOSUMDB=off GOTOOLCHAIN=local go build -o /verif/bin/gocv .",
 "hooks": {
   "guard": "verif",
   "enable": "go build -tags verif (the checks load /repo with -tags=verif; the tag only adds <pkg>/zz_contracts_verif.go files holding //@ contract comments and ghost declarations)",
   "baseline_off_cmd": "cd /repo && go test -vet=off -count=1 ./...",
   "source_commits": hooks,
   "add_only": True,
 },
 "engines": [{"name":"gocv","path":"/verif/gocv","serves_properties":sorted(CLAIMED),"kind_free_text":"verification-condition generator over go/ssa (NaiveForm) with contracts in //@ comments; obligations discharged by z3 5.1 / z3 4.8.12 / cvc5 1.0.3"}],
 "checks": [],
 "not_applicable": [{"property_id":p,"reason":NA[p]} for p in sorted(NA)],
 "notes": "See DESIGN.md. known_findings.json lists genuine defects (open or fixed); obligations.lock.json lists obligations not claimed.",
}
for p in sorted(CLAIMED):
    c = CLAIMED[p]
    m["checks"].append({
      "property_id": p,
      "quick_cmd": "./check %s quick" % p,
      "thorough_cmd": "./check %s thorough" % p,
      "evidence_file": "/verif/evidence/%s.json" % p,
      "replay_cmd_template": "cat {path}",
      "engine": "gocv",
      "level_claimed": {"category": c.get('category','proof'), "text": c['text'], "design_ref": c['ref']},
      "level_note": c['note'],
      "technique": c['technique'],
    })
json.dump(m, open('/verif/MANIFEST.json','w'), indent=1)
print("claimed:", sorted(CLAIMED), "n/a:", sorted(NA))
